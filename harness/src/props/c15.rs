//! C15 — Wire messages round-trip and have a unique encoding.
//!
//! Three families of cases:
//! * `roundtrip`: messages built by construction from primitive data (every type, at and around the
//!   limits) must serialize within 65 535 bytes and decode to an equal message;
//! * `mutants` / `raw`: byte strings (structure-aware mutations of valid encodings, hand-assembled
//!   ping/pong/node-announcement encodings, random tails behind a valid type id): whenever
//!   `deserialize` accepts them, `serialize` of the result must give back exactly the same bytes —
//!   the only exception being a node announcement whose input is its encoding without the trailing
//!   user-agent field.
use std::str::FromStr;

use cyphernet::addr::{tor, HostName, NetAddr};
use cyphernet::EcPk;
use proptest::prelude::*;
use radicle::crypto::{PublicKey, Signature};
use radicle::git::Oid;
use radicle::node::device::Device;
use radicle::node::{Address, Alias, UserAgent};
use radicle::storage::refs::RefsAt;
use radicle_node::prelude::{BoundedVec, RepoId, Timestamp};
use radicle_node::service::filter::{BloomFilter, Filter, FILTER_SIZES};
use radicle_node::service::message::{
    Announcement, AnnouncementMessage, Info, InventoryAnnouncement, Message, NodeAnnouncement, Ping,
    RefsAnnouncement, ZeroBytes, ADDRESS_LIMIT, INVENTORY_LIMIT, REF_REMOTE_LIMIT,
};
use radicle_node::wire;
use serde::{Deserialize, Serialize};

use crate::core::*;
use crate::ensure;

pub const PROP: Prop = Prop {
    id: "C15",
    shards: (8, 16),
    level: "exploration",
    rule: "roundtrip: a message spec (type, primitive field data, MockSigner seed) is built through the public \
           constructors; non-trivial = some field sits at its limit (inventory 2973, refs 1024, 16 addresses, \
           255-byte DNS name, 32-byte alias, 64-byte agent, maximal ping/pong padding) or the announcement is \
           really signed. mutants/raw: bytes derived from valid encodings by byte/structure mutations or assembled \
           by hand; non-trivial = the bytes differ from the unmutated encoding and still decode. Distinct = hash of \
           the case.",
    assumptions: &[
        "constructible messages respect the documented constructor preconditions: alias/user-agent valid per \
         Alias::from_str/UserAgent::from_str, timestamps <= Timestamp::MAX, ping/pong padding <= \
         Ping::MAX_PING_ZEROES/MAX_PONG_ZEROES, vectors within their BoundedVec limits, DNS names <= 255 bytes",
        "the only tolerated non-canonical input is a node announcement lacking the whole trailing user-agent field",
    ],
    run,
    budget_s: (600, 7200),
};

// ---------------------------------------------------------------------------
// Message specs (serde-able, primitive data only)
// ---------------------------------------------------------------------------

#[derive(Debug, Clone, Serialize, Deserialize, Hash, PartialEq, Eq)]
pub enum SigSpec {
    /// Really signed by the node's MockSigner.
    Signed,
    /// 64 bytes derived from the seed.
    Raw(u64),
}

#[derive(Debug, Clone, Serialize, Deserialize, Hash, PartialEq, Eq)]
pub enum AddrSpec {
    V4([u8; 4], u16),
    V6([u8; 16], u16),
    Dns(String, u16),
    /// Onion v3 address of the (arbitrary) 32-byte public key.
    Onion([u8; 32], u16),
}

/// `n` items derived from `seed`.
#[derive(Debug, Clone, Serialize, Deserialize, Hash, PartialEq, Eq)]
pub struct Bulk {
    pub n: u16,
    pub seed: u64,
}

#[derive(Debug, Clone, Serialize, Deserialize, Hash, PartialEq, Eq)]
pub enum MsgSpec {
    Subscribe {
        /// index into FILTER_SIZES
        size: u8,
        fill: u8,
        /// (position, value) overrides
        bits: Vec<(u16, u8)>,
        since: u64,
        until: u64,
    },
    Node {
        key: u8,
        sig: SigSpec,
        version: u8,
        features: u64,
        timestamp: u64,
        alias: String,
        addrs: Vec<AddrSpec>,
        nonce: u64,
        agent: String,
    },
    Inventory {
        key: u8,
        sig: SigSpec,
        inv: Bulk,
        timestamp: u64,
    },
    Refs {
        key: u8,
        sig: SigSpec,
        rid: u64,
        refs: Bulk,
        timestamp: u64,
    },
    Info {
        rid: u64,
        at: u64,
    },
    Ping {
        ponglen: u16,
        zeroes: u16,
    },
    Pong {
        zeroes: u16,
    },
}

impl MsgSpec {
    pub fn kind(&self) -> &'static str {
        match self {
            MsgSpec::Subscribe { .. } => "subscribe",
            MsgSpec::Node { .. } => "node-announcement",
            MsgSpec::Inventory { .. } => "inventory-announcement",
            MsgSpec::Refs { .. } => "refs-announcement",
            MsgSpec::Info { .. } => "info",
            MsgSpec::Ping { .. } => "ping",
            MsgSpec::Pong { .. } => "pong",
        }
    }

    /// Is some field at its documented limit?
    pub fn at_limit(&self) -> bool {
        match self {
            MsgSpec::Subscribe { size, since, until, .. } => {
                *size == 2 || *since == TS_MAX || *until == TS_MAX
            }
            MsgSpec::Node { alias, addrs, agent, timestamp, .. } => {
                alias.len() == radicle::node::MAX_ALIAS_LENGTH
                    || addrs.len() == ADDRESS_LIMIT
                    || agent.len() == 64
                    || *timestamp == TS_MAX
                    || addrs.iter().any(|a| matches!(a, AddrSpec::Dns(d, _) if d.len() == 255))
            }
            MsgSpec::Inventory { inv, .. } => inv.n as usize == INVENTORY_LIMIT,
            MsgSpec::Refs { refs, .. } => refs.n as usize == REF_REMOTE_LIMIT,
            MsgSpec::Info { .. } => false,
            MsgSpec::Ping { zeroes, .. } => *zeroes == Ping::MAX_PING_ZEROES,
            MsgSpec::Pong { zeroes } => *zeroes == Ping::MAX_PONG_ZEROES,
        }
    }

    pub fn signed(&self) -> bool {
        matches!(
            self,
            MsgSpec::Node { sig: SigSpec::Signed, .. }
                | MsgSpec::Inventory { sig: SigSpec::Signed, .. }
                | MsgSpec::Refs { sig: SigSpec::Signed, .. }
        )
    }
}

pub const TS_MAX: u64 = i64::MAX as u64;

pub fn derive_bytes<const N: usize>(seed: u64, i: u64) -> [u8; N] {
    let mut out = [0u8; N];
    let mut s = mix(seed ^ mix(i));
    for chunk in out.chunks_mut(8) {
        s = mix(s);
        let b = s.to_le_bytes();
        chunk.copy_from_slice(&b[..chunk.len()]);
    }
    out
}

fn oid(seed: u64, i: u64) -> Oid {
    Oid::try_from(derive_bytes::<20>(seed, i).as_slice()).expect("20 bytes are an oid")
}

fn ts(t: u64) -> Timestamp {
    Timestamp::try_from(t.min(TS_MAX)).expect("timestamp within range")
}

fn device(key: u8) -> Device<radicle::crypto::test::signer::MockSigner> {
    // (an all-zero seed is rejected by the key derivation)
    let mut seed = [key; 32];
    seed[31] = 0xa5;
    Device::mock_from_seed(seed)
}

fn address(a: &AddrSpec) -> Address {
    let (host, port) = match a {
        AddrSpec::V4(o, p) => (HostName::Ip(std::net::IpAddr::V4((*o).into())), *p),
        AddrSpec::V6(o, p) => (HostName::Ip(std::net::IpAddr::V6((*o).into())), *p),
        AddrSpec::Dns(d, p) => (HostName::Dns(d.clone()), *p),
        AddrSpec::Onion(pk, p) => {
            let pk = cyphernet::ed25519::PublicKey::from_pk_compressed(*pk).expect("any 32 bytes");
            (HostName::Tor(tor::OnionAddrV3::from(pk)), *p)
        }
    };
    Address::from(NetAddr { host, port })
}

fn announce(key: u8, sig: &SigSpec, msg: AnnouncementMessage) -> Message {
    let dev = device(key);
    match sig {
        SigSpec::Signed => Message::Announcement(msg.signed(&dev)),
        SigSpec::Raw(seed) => {
            Message::announcement(*dev.public_key(), msg, Signature::from(derive_bytes::<64>(*seed, 0)))
        }
    }
}

/// Build the message through the node's public constructors.
pub fn build(spec: &MsgSpec) -> Message {
    match spec {
        MsgSpec::Subscribe { size, fill, bits, since, until } => {
            let n = FILTER_SIZES[*size as usize % FILTER_SIZES.len()];
            let mut bytes = vec![*fill; n];
            for (pos, val) in bits {
                bytes[*pos as usize % n] = *val;
            }
            Message::subscribe(Filter::from(BloomFilter::from(bytes)), ts(*since), ts(*until))
        }
        MsgSpec::Node { key, sig, version, features, timestamp, alias, addrs, nonce, agent } => {
            let ann = NodeAnnouncement {
                version: *version,
                features: (*features).into(),
                timestamp: ts(*timestamp),
                alias: Alias::new(alias),
                addresses: BoundedVec::try_from(addrs.iter().map(address).collect::<Vec<_>>())
                    .expect("at most ADDRESS_LIMIT addresses"),
                nonce: *nonce,
                agent: UserAgent::from_str(agent).expect("generated user agent is valid"),
            };
            announce(*key, sig, ann.into())
        }
        MsgSpec::Inventory { key, sig, inv, timestamp } => {
            let items: Vec<RepoId> = (0..inv.n as u64).map(|i| RepoId::from(oid(inv.seed, i))).collect();
            let ann = InventoryAnnouncement {
                inventory: BoundedVec::try_from(items).expect("at most INVENTORY_LIMIT items"),
                timestamp: ts(*timestamp),
            };
            announce(*key, sig, ann.into())
        }
        MsgSpec::Refs { key, sig, rid, refs, timestamp } => {
            let items: Vec<RefsAt> = (0..refs.n as u64)
                .map(|i| RefsAt {
                    remote: PublicKey::from(derive_bytes::<32>(refs.seed ^ 0x5eed, i)),
                    at: oid(refs.seed, i),
                })
                .collect();
            let ann = RefsAnnouncement {
                rid: RepoId::from(oid(*rid, 0)),
                refs: BoundedVec::try_from(items).expect("at most REF_REMOTE_LIMIT refs"),
                timestamp: ts(*timestamp),
            };
            announce(*key, sig, ann.into())
        }
        MsgSpec::Info { rid, at } => {
            Message::Info(Info::RefsAlreadySynced { rid: RepoId::from(oid(*rid, 0)), at: oid(*at, 1) })
        }
        MsgSpec::Ping { ponglen, zeroes } => {
            Message::Ping(Ping { ponglen: *ponglen, zeroes: ZeroBytes::new(*zeroes) })
        }
        MsgSpec::Pong { zeroes } => Message::Pong { zeroes: ZeroBytes::new(*zeroes) },
    }
}

// ---------------------------------------------------------------------------
// Strategies
// ---------------------------------------------------------------------------

fn timestamp() -> impl Strategy<Value = u64> {
    prop_oneof![
        2 => Just(0u64),
        1 => Just(1u64),
        2 => Just(TS_MAX),
        1 => Just(TS_MAX - 1),
        6 => any::<u64>().prop_map(|t| t & TS_MAX),
        4 => 1_600_000_000_000u64..1_900_000_000_000u64,
    ]
}

/// Size classes around a limit: 0, 1, max-1, max, anything.
fn count(max: usize) -> impl Strategy<Value = u16> {
    prop_oneof![
        2 => Just(0u16),
        2 => Just(1u16),
        1 => Just((max - 1) as u16),
        3 => Just(max as u16),
        6 => 0..=(max.min(24) as u16),
        2 => 0..=(max as u16),
    ]
}

const ALIAS_CHARS: &[char] = &[
    'a', 'b', 'z', 'A', 'Q', '0', '9', '-', '_', '.', '@', '/', ':', '~', 'é', 'ß', '名', '前', '🦀', '\u{200d}',
];

/// A valid alias (non-empty, no whitespace/control, at most 32 bytes), biased to the byte limit.
fn alias() -> impl Strategy<Value = String> {
    (
        prop_oneof![3 => Just(32usize), 1 => Just(31usize), 1 => Just(1usize), 3 => 1usize..=32],
        proptest::collection::vec(any::<u16>(), 1..=32),
    )
        .prop_map(|(target, idx)| {
            let mut s = String::new();
            for i in idx.iter().cycle().take(64) {
                let c = ALIAS_CHARS[pick(*i, ALIAS_CHARS.len())];
                if s.len() + c.len_utf8() > target {
                    // fill the rest with one-byte characters
                    if s.len() < target {
                        s.push('x');
                        continue;
                    }
                    break;
                }
                s.push(c);
            }
            if s.is_empty() {
                s.push('x');
            }
            s
        })
}

const AGENT_CHARS: &[u8] = b"abcxyzRAD019.-_+@~!";

/// A valid user agent: `/seg/seg/.../` with `seg = name | name:version`, at most 64 bytes.
fn agent() -> impl Strategy<Value = String> {
    (
        prop_oneof![3 => Just(64usize), 1 => Just(63usize), 1 => Just(3usize), 1 => Just(0usize), 4 => 3usize..=64],
        proptest::collection::vec((1usize..10, proptest::option::of(1usize..8), any::<u16>()), 1..6),
    )
        .prop_map(|(target, segs)| {
            if target == 0 {
                return "/radicle/".to_string();
            }
            let ch = |k: u16, j: usize| AGENT_CHARS[pick(k.wrapping_mul(31).wrapping_add((j as u16).wrapping_mul(7919)), AGENT_CHARS.len())] as char;
            let mut s = String::from("/");
            for (nlen, vlen, k) in segs {
                let mut seg = String::new();
                for j in 0..nlen {
                    seg.push(ch(k, j));
                }
                if let Some(v) = vlen {
                    seg.push(':');
                    for j in 0..v {
                        seg.push(ch(k, j + 100));
                    }
                }
                if s.len() + seg.len() + 1 > target {
                    break;
                }
                s.push_str(&seg);
                s.push('/');
            }
            if s.len() == 1 {
                s.push_str("r/");
            }
            // pad the last segment so that the total is exactly `target`
            while s.len() < target {
                s.insert(s.len() - 1, 'x');
            }
            s
        })
}

fn dns() -> impl Strategy<Value = String> {
    (
        prop_oneof![2 => Just(255usize), 1 => Just(254usize), 1 => Just(1usize), 1 => Just(63usize), 5 => 1usize..=255],
        any::<u64>(),
    )
        .prop_map(|(len, seed)| {
            let mut s = String::with_capacity(len);
            let mut r = seed;
            while s.len() < len {
                r = mix(r);
                let c = match r % 40 {
                    0..=19 => (b'a' + (r % 26) as u8) as char,
                    // host names are case-insensitive on the network but are carried (and signed) as written
                    20..=25 => (b'A' + (r % 26) as u8) as char,
                    26..=35 => (b'0' + (r % 10) as u8) as char,
                    36 => '-',
                    _ => '.',
                };
                s.push(c);
            }
            s
        })
}

fn addr() -> impl Strategy<Value = AddrSpec> {
    prop_oneof![
        any::<([u8; 4], u16)>().prop_map(|(o, p)| AddrSpec::V4(o, p)),
        any::<([u8; 16], u16)>().prop_map(|(o, p)| AddrSpec::V6(o, p)),
        (dns(), any::<u16>()).prop_map(|(d, p)| AddrSpec::Dns(d, p)),
        any::<([u8; 32], u16)>().prop_map(|(k, p)| AddrSpec::Onion(k, p)),
    ]
}

fn sig() -> impl Strategy<Value = SigSpec> {
    prop_oneof![1 => Just(SigSpec::Signed), 2 => any::<u64>().prop_map(SigSpec::Raw)]
}

fn zeroes(max: u16) -> impl Strategy<Value = u16> {
    prop_oneof![
        2 => Just(0u16),
        1 => Just(1u16),
        2 => Just(max),
        1 => Just(max - 1),
        5 => 0u16..64,
        2 => 0u16..=max,
    ]
}

pub fn msg_strategy() -> impl Strategy<Value = MsgSpec> {
    prop_oneof![
        2 => (0u8..3, prop_oneof![Just(0u8), Just(0xff), any::<u8>()],
              proptest::collection::vec(any::<(u16, u8)>(), 0..8), timestamp(), timestamp())
            .prop_map(|(size, fill, bits, since, until)| MsgSpec::Subscribe { size, fill, bits, since, until }),
        4 => (any::<u8>(), sig(), prop_oneof![Just(1u8), any::<u8>()], prop_oneof![Just(0u64), Just(1u64), any::<u64>()],
              timestamp(), alias(),
              prop_oneof![
                  3 => proptest::collection::vec(addr(), 0..=3),
                  2 => proptest::collection::vec(addr(), ADDRESS_LIMIT),
                  1 => proptest::collection::vec(addr(), 0..=ADDRESS_LIMIT),
              ],
              any::<u64>(), agent())
            .prop_map(|(key, sig, version, features, timestamp, alias, addrs, nonce, agent)| MsgSpec::Node {
                key, sig, version, features, timestamp, alias, addrs, nonce, agent,
            }),
        2 => (any::<u8>(), sig(), count(INVENTORY_LIMIT), any::<u64>(), timestamp())
            .prop_map(|(key, sig, n, seed, timestamp)| MsgSpec::Inventory { key, sig, inv: Bulk { n, seed }, timestamp }),
        2 => (any::<u8>(), sig(), any::<u64>(), count(REF_REMOTE_LIMIT), any::<u64>(), timestamp())
            .prop_map(|(key, sig, rid, n, seed, timestamp)| MsgSpec::Refs { key, sig, rid, refs: Bulk { n, seed }, timestamp }),
        1 => any::<(u64, u64)>().prop_map(|(rid, at)| MsgSpec::Info { rid, at }),
        2 => (prop_oneof![Just(0u16), Just(Ping::MAX_PONG_ZEROES), Just(u16::MAX), any::<u16>()], zeroes(Ping::MAX_PING_ZEROES))
            .prop_map(|(ponglen, zeroes)| MsgSpec::Ping { ponglen, zeroes }),
        2 => zeroes(Ping::MAX_PONG_ZEROES).prop_map(|zeroes| MsgSpec::Pong { zeroes }),
    ]
}

/// Messages whose encoding stays small (for byte-level mutation and framing work).
pub fn small_msg_strategy() -> impl Strategy<Value = MsgSpec> {
    msg_strategy().prop_map(|mut m| {
        match &mut m {
            MsgSpec::Subscribe { size, .. } => *size = 0,
            MsgSpec::Node { addrs, .. } => {
                addrs.truncate(3);
                for a in addrs.iter_mut() {
                    if let AddrSpec::Dns(d, _) = a {
                        d.truncate(24);
                    }
                }
            }
            MsgSpec::Inventory { inv, .. } => inv.n = inv.n.min(3),
            MsgSpec::Refs { refs, .. } => refs.n = refs.n.min(2),
            MsgSpec::Info { .. } => {}
            MsgSpec::Ping { zeroes, .. } => *zeroes = (*zeroes).min(24),
            MsgSpec::Pong { zeroes } => *zeroes = (*zeroes).min(24),
        }
        m
    })
}

// ---------------------------------------------------------------------------
// Oracles
// ---------------------------------------------------------------------------

fn kind_of(m: &Message) -> &'static str {
    match m {
        Message::Subscribe(_) => "subscribe",
        Message::Announcement(Announcement { message, .. }) => match message {
            AnnouncementMessage::Node(_) => "node-announcement",
            AnnouncementMessage::Inventory(_) => "inventory-announcement",
            AnnouncementMessage::Refs(_) => "refs-announcement",
        },
        Message::Info(_) => "info",
        Message::Ping(_) => "ping",
        Message::Pong { .. } => "pong",
    }
}

fn hex(b: &[u8]) -> String {
    let mut s = String::new();
    for (i, x) in b.iter().enumerate() {
        if i >= 96 {
            s.push_str(&format!("…(+{} bytes)", b.len() - i));
            break;
        }
        s.push_str(&format!("{x:02x}"));
    }
    s
}

/// Clause 1: constructible messages encode within the limit and decode to an equal message.
fn check_roundtrip(ctx: &Ctx, spec: &MsgSpec) -> CaseResult {
    let kind = spec.kind();
    let msg = build(spec);
    let bytes = match catch(|| wire::serialize(&msg)) {
        Ok(b) => b,
        Err((loc, m)) => {
            return fail(format!("encode-fails:{kind}"), format!("serialize panicked at {loc}: {m}"));
        }
    };
    ensure!(
        bytes.len() <= wire::Size::MAX as usize,
        format!("encode-exceeds-limit:{kind}"),
        "{} bytes for {msg:?}",
        bytes.len()
    );
    let decoded = match wire::deserialize::<Message>(&bytes) {
        Ok(d) => d,
        Err(e) => {
            return fail(format!("decode-fails:{kind}"), format!("{e} for {} bytes {}", bytes.len(), hex(&bytes)));
        }
    };
    ensure!(decoded == msg, format!("roundtrip-differs:{kind}"), "sent {msg:?}, got {decoded:?}");
    let again = wire::serialize(&decoded);
    ensure!(
        again == bytes,
        format!("reencode-differs:{kind}"),
        "re-encoding of the decoded message differs: {} vs {}",
        hex(&again),
        hex(&bytes)
    );
    if spec.signed() {
        // The signature was made over the sender's encoding; it must still verify on the receiver's
        // re-encoding of what it decoded.
        if let Message::Announcement(ann) = &decoded {
            ensure!(ann.verify(), format!("signature-lost:{kind}"), "decoded announcement does not verify: {ann:?}");
        }
        ctx.count("roundtrip:really-signed");
    }
    ctx.count(&format!("roundtrip:{kind}"));
    let size_class = match bytes.len() {
        0..=63 => "<64",
        64..=1023 => "<1Ki",
        1024..=16383 => "<16Ki",
        16384..=60000 => "<60000",
        _ => ">=60000",
    };
    ctx.count(&format!("roundtrip:size{size_class}"));
    if spec.at_limit() {
        ctx.count(&format!("roundtrip:at-limit:{kind}"));
    }
    if spec.at_limit() || spec.signed() {
        ctx.nontrivial(&("rt", spec));
        ctx.sample("roundtrip", spec);
    }
    Ok(())
}

/// Clause 2: bytes that decode re-encode to the same bytes (legacy node announcement excepted).
/// `origin` is the unmutated encoding, when there is one.
fn check_bytes(ctx: &Ctx, sub: &str, bytes: &[u8], origin: Option<&[u8]>) -> Result<bool, Fail> {
    let mutated = origin.map(|o| o != bytes).unwrap_or(true);
    match wire::deserialize::<Message>(bytes) {
        Err(e) => {
            let class = match &e {
                wire::Error::Io(_) => "io",
                wire::Error::UnexpectedBytes => "unexpected-bytes",
                wire::Error::UnknownMessageType(_) => "unknown-type",
                _ => "invalid-field",
            };
            ctx.count(&format!("{sub}:rejected:{class}"));
            Ok(false)
        }
        Ok(m) => {
            let kind = kind_of(&m);
            let again = match catch(|| wire::serialize(&m)) {
                Ok(b) => b,
                Err((loc, msg)) => {
                    return fail(
                        format!("decoded-does-not-encode:{kind}"),
                        format!("{} decoded to {m:?} whose encoding panics at {loc}: {msg}", hex(bytes)),
                    );
                }
            };
            if again == bytes {
                ctx.count(&format!("{sub}:accepted-canonical:{kind}"));
            } else {
                // The only exception: node announcement, input == encoding minus the trailing agent field.
                let legacy = match &m {
                    Message::Announcement(Announcement { message: AnnouncementMessage::Node(n), .. }) => {
                        let agent = wire::serialize(&n.agent);
                        again.len() == bytes.len() + agent.len()
                            && again[..bytes.len()] == *bytes
                            && again[bytes.len()..] == agent[..]
                    }
                    _ => false,
                };
                ensure!(
                    legacy,
                    format!("reencode-differs:{kind}"),
                    "{} bytes {} decode to {m:?} but re-encode to {} bytes {}",
                    bytes.len(),
                    hex(bytes),
                    again.len(),
                    hex(&again)
                );
                ctx.count(&format!("{sub}:accepted-legacy-no-agent"));
            }
            // and the decoded message is itself a constructible message: it round-trips
            let back = wire::deserialize::<Message>(&again);
            ensure!(
                matches!(&back, Ok(b) if *b == m),
                format!("roundtrip-differs:{kind}"),
                "decoded {m:?}; its encoding decodes to {back:?}"
            );
            if mutated {
                ctx.count(&format!("{sub}:mutated-and-accepted"));
            }
            Ok(mutated)
        }
    }
}

// ---------------------------------------------------------------------------
// Mutants
// ---------------------------------------------------------------------------

#[derive(Debug, Clone, Serialize, Deserialize, Hash, PartialEq, Eq)]
pub enum Mutation {
    /// xor the byte at (monotone-mapped) position with a non-zero mask
    Flip { pos: u16, mask: u8 },
    /// like Flip but counted from the end
    FlipBack { back: u8, mask: u8 },
    Set { pos: u16, val: u8 },
    Truncate { keep: u16 },
    TruncateBack { drop: u8 },
    Append { bytes: Vec<u8> },
    Insert { pos: u16, val: u8 },
    Delete { pos: u16 },
    /// node announcements: remove the whole trailing user-agent field (the tolerated legacy form)
    DropAgent,
    /// node announcements: keep only `keep` bytes (>= 1) of the trailing user-agent field
    CutAgent { keep: u8 },
    /// node announcements: overwrite the agent's length byte
    AgentLen { len: u8 },
}

#[derive(Debug, Clone, Serialize, Deserialize, Hash)]
pub struct MutantCase {
    base: MsgSpec,
    muts: Vec<Mutation>,
}

fn agent_field_len(spec: &MsgSpec) -> Option<usize> {
    match spec {
        MsgSpec::Node { agent, .. } => Some(agent.len() + 1),
        _ => None,
    }
}

pub fn apply(spec: &MsgSpec, bytes: &mut Vec<u8>, m: &Mutation) -> &'static str {
    match m {
        Mutation::Flip { pos, mask } => {
            if !bytes.is_empty() {
                let i = pick(*pos, bytes.len());
                bytes[i] ^= (*mask).max(1);
            }
            "flip"
        }
        Mutation::FlipBack { back, mask } => {
            if !bytes.is_empty() {
                let i = bytes.len() - 1 - (*back as usize).min(bytes.len() - 1);
                bytes[i] ^= (*mask).max(1);
            }
            "flip-back"
        }
        Mutation::Set { pos, val } => {
            if !bytes.is_empty() {
                let i = pick(*pos, bytes.len());
                bytes[i] = *val;
            }
            "set"
        }
        Mutation::Truncate { keep } => {
            let k = pick(*keep, bytes.len() + 1);
            bytes.truncate(k);
            "truncate"
        }
        Mutation::TruncateBack { drop } => {
            let k = bytes.len().saturating_sub(*drop as usize);
            bytes.truncate(k);
            "truncate-back"
        }
        Mutation::Append { bytes: extra } => {
            bytes.extend_from_slice(extra);
            "append"
        }
        Mutation::Insert { pos, val } => {
            let i = pick(*pos, bytes.len() + 1);
            bytes.insert(i, *val);
            "insert"
        }
        Mutation::Delete { pos } => {
            if !bytes.is_empty() {
                let i = pick(*pos, bytes.len());
                bytes.remove(i);
            }
            "delete"
        }
        Mutation::DropAgent => {
            if let Some(n) = agent_field_len(spec) {
                if bytes.len() >= n {
                    bytes.truncate(bytes.len() - n);
                }
            }
            "drop-agent"
        }
        Mutation::CutAgent { keep } => {
            if let Some(n) = agent_field_len(spec) {
                if bytes.len() >= n && n >= 2 {
                    // keep 1..=n-1 bytes of the n-byte field
                    let k = 1 + (*keep as usize) % (n - 1);
                    bytes.truncate(bytes.len() - n + k);
                }
            }
            "cut-agent"
        }
        Mutation::AgentLen { len } => {
            if let Some(n) = agent_field_len(spec) {
                if bytes.len() >= n {
                    let i = bytes.len() - n;
                    bytes[i] = *len;
                }
            }
            "agent-len"
        }
    }
}

fn mutation() -> impl Strategy<Value = Mutation> {
    prop_oneof![
        4 => (any::<u16>(), any::<u8>()).prop_map(|(pos, mask)| Mutation::Flip { pos, mask }),
        3 => (0u8..40, any::<u8>()).prop_map(|(back, mask)| Mutation::FlipBack { back, mask }),
        2 => (any::<u16>(), prop_oneof![Just(0u8), Just(1), Just(0xff), any::<u8>()]).prop_map(|(pos, val)| Mutation::Set { pos, val }),
        1 => any::<u16>().prop_map(|keep| Mutation::Truncate { keep }),
        2 => (1u8..24).prop_map(|drop| Mutation::TruncateBack { drop }),
        2 => proptest::collection::vec(any::<u8>(), 1..12).prop_map(|bytes| Mutation::Append { bytes }),
        1 => any::<(u16, u8)>().prop_map(|(pos, val)| Mutation::Insert { pos, val }),
        1 => any::<u16>().prop_map(|pos| Mutation::Delete { pos }),
        2 => Just(Mutation::DropAgent),
        2 => any::<u8>().prop_map(|keep| Mutation::CutAgent { keep }),
        1 => any::<u8>().prop_map(|len| Mutation::AgentLen { len }),
    ]
}

fn mutant_case() -> impl Strategy<Value = MutantCase> {
    (
        prop_oneof![4 => small_msg_strategy(), 1 => msg_strategy()],
        proptest::collection::vec(mutation(), 1..=3),
    )
        .prop_map(|(base, muts)| MutantCase { base, muts })
}

fn check_mutant(ctx: &Ctx, c: &MutantCase) -> CaseResult {
    let origin = wire::serialize(&build(&c.base));
    let mut bytes = origin.clone();
    for m in &c.muts {
        let name = apply(&c.base, &mut bytes, m);
        ctx.count(&format!("mutants:op:{name}"));
    }
    ctx.count(&format!("mutants:base:{}", c.base.kind()));
    if bytes == origin {
        ctx.count("mutants:no-effective-change");
    }
    if check_bytes(ctx, "mutants", &bytes, Some(&origin))? {
        ctx.nontrivial(&("mut", c));
        ctx.sample("mutants", c);
    }
    Ok(())
}

// ---------------------------------------------------------------------------
// Raw bytes (assembled by the harness, not by the encoder under test)
// ---------------------------------------------------------------------------

#[derive(Debug, Clone, Serialize, Deserialize, Hash)]
pub enum RawCase {
    /// type id, then arbitrary bytes
    Typed { type_id: u16, tail: Vec<u8> },
    /// `ping`: type 10, ponglen, u16 length, then exactly that many padding bytes (+ extra)
    Ping { ponglen: u16, pad: Vec<u8>, extra: Vec<u8> },
    /// `pong`: type 12, u16 length, then exactly that many padding bytes (+ extra)
    Pong { pad: Vec<u8>, extra: Vec<u8> },
    /// entirely arbitrary
    Bytes(Vec<u8>),
}

impl RawCase {
    fn bytes(&self) -> Vec<u8> {
        match self {
            RawCase::Typed { type_id, tail } => {
                let mut b = type_id.to_be_bytes().to_vec();
                b.extend_from_slice(tail);
                b
            }
            RawCase::Ping { ponglen, pad, extra } => {
                let mut b = vec![0, 10];
                b.extend_from_slice(&ponglen.to_be_bytes());
                b.extend_from_slice(&(pad.len() as u16).to_be_bytes());
                b.extend_from_slice(pad);
                b.extend_from_slice(extra);
                b
            }
            RawCase::Pong { pad, extra } => {
                let mut b = vec![0, 12];
                b.extend_from_slice(&(pad.len() as u16).to_be_bytes());
                b.extend_from_slice(pad);
                b.extend_from_slice(extra);
                b
            }
            RawCase::Bytes(b) => b.clone(),
        }
    }
}

fn padding() -> impl Strategy<Value = Vec<u8>> {
    prop_oneof![
        // all zero (canonical)
        2 => (0usize..40).prop_map(|n| vec![0u8; n]),
        // a single non-zero byte somewhere
        3 => (1usize..40, any::<u16>(), 1u8..=255).prop_map(|(n, pos, v)| {
            let mut p = vec![0u8; n];
            p[pick(pos, n)] = v;
            p
        }),
        1 => proptest::collection::vec(any::<u8>(), 0..24),
    ]
}

fn raw_case() -> impl Strategy<Value = RawCase> {
    let extra = || prop_oneof![4 => Just(vec![]), 1 => proptest::collection::vec(any::<u8>(), 1..4)];
    prop_oneof![
        3 => (prop_oneof![
                4 => prop_oneof![Just(2u16), Just(4), Just(6), Just(8), Just(10), Just(12), Just(14)],
                1 => 0u16..20,
                1 => any::<u16>()
              ], proptest::collection::vec(prop_oneof![Just(0u8), Just(1), Just(20), any::<u8>()], 0..64))
            .prop_map(|(type_id, tail)| RawCase::Typed { type_id, tail }),
        3 => (any::<u16>(), padding(), extra()).prop_map(|(ponglen, pad, extra)| RawCase::Ping { ponglen, pad, extra }),
        3 => (padding(), extra()).prop_map(|(pad, extra)| RawCase::Pong { pad, extra }),
        1 => proptest::collection::vec(any::<u8>(), 0..48).prop_map(RawCase::Bytes),
    ]
}

fn check_raw(ctx: &Ctx, c: &RawCase) -> CaseResult {
    let bytes = c.bytes();
    let name = match c {
        RawCase::Typed { .. } => "typed",
        RawCase::Ping { .. } => "ping",
        RawCase::Pong { .. } => "pong",
        RawCase::Bytes(_) => "bytes",
    };
    ctx.count(&format!("raw:gen:{name}"));
    match c {
        RawCase::Ping { pad, extra, .. } | RawCase::Pong { pad, extra } => {
            if pad.iter().any(|b| *b != 0) && extra.is_empty() {
                ctx.count("raw:nonzero-padding");
            }
        }
        _ => {}
    }
    if check_bytes(ctx, "raw", &bytes, None)? {
        ctx.nontrivial(&("raw", c));
        ctx.sample("raw", c);
    }
    Ok(())
}

// ---------------------------------------------------------------------------
// Fixed boundary cases (always run, every tier)
// ---------------------------------------------------------------------------

fn boundary_specs() -> Vec<MsgSpec> {
    let mut v = vec![];
    let mut alias32 = "名前🦀-é".to_string();
    while alias32.len() < 32 {
        alias32.push('x');
    }
    assert_eq!(alias32.len(), 32);
    let agent64 = format!("/radicle:1.0.0/{}/", "x".repeat(64 - 16));
    debug_assert_eq!(agent64.len(), 64);
    for n in [0usize, 1, INVENTORY_LIMIT - 1, INVENTORY_LIMIT] {
        for sig in [SigSpec::Signed, SigSpec::Raw(7)] {
            v.push(MsgSpec::Inventory { key: 1, sig, inv: Bulk { n: n as u16, seed: 11 }, timestamp: TS_MAX });
        }
    }
    for n in [0usize, 1, REF_REMOTE_LIMIT - 1, REF_REMOTE_LIMIT] {
        for sig in [SigSpec::Signed, SigSpec::Raw(7)] {
            v.push(MsgSpec::Refs { key: 2, sig, rid: 5, refs: Bulk { n: n as u16, seed: 13 }, timestamp: 0 });
        }
    }
    for (i, mk) in [0u8, 1, 2, 3].iter().enumerate() {
        let addrs: Vec<AddrSpec> = (0..ADDRESS_LIMIT)
            .map(|j| match mk {
                0 => AddrSpec::V4([j as u8, 2, 3, 4], 8776),
                1 => AddrSpec::V6([j as u8; 16], 0),
                2 => AddrSpec::Dns("d".repeat(255), u16::MAX),
                _ => AddrSpec::Onion([j as u8 + 1; 32], 9050),
            })
            .collect();
        v.push(MsgSpec::Node {
            key: 3 + i as u8,
            sig: SigSpec::Signed,
            version: 1,
            features: u64::MAX,
            timestamp: TS_MAX,
            alias: alias32.clone(),
            addrs,
            nonce: u64::MAX,
            agent: agent64.clone(),
        });
    }
    v.push(MsgSpec::Node {
        key: 9,
        sig: SigSpec::Raw(1),
        version: 0,
        features: 0,
        timestamp: 0,
        alias: "a".into(),
        addrs: vec![],
        nonce: 0,
        agent: "/radicle/".into(),
    });
    for z in [0, 1, Ping::MAX_PING_ZEROES - 1, Ping::MAX_PING_ZEROES] {
        for ponglen in [0, Ping::MAX_PONG_ZEROES, u16::MAX] {
            v.push(MsgSpec::Ping { ponglen, zeroes: z });
        }
    }
    for z in [0, 1, Ping::MAX_PONG_ZEROES - 1, Ping::MAX_PONG_ZEROES] {
        v.push(MsgSpec::Pong { zeroes: z });
    }
    for size in 0..3u8 {
        for fill in [0u8, 0xff, 0x5a] {
            v.push(MsgSpec::Subscribe { size, fill, bits: vec![(0, 1), (1023, 0x80)], since: 0, until: TS_MAX });
        }
    }
    v.push(MsgSpec::Info { rid: 1, at: 2 });
    v
}

/// Write golden encodings (seed corpus for byte-level fuzzing) when `VERIF_GOLDEN` names a directory.
fn write_golden(ctx: &Ctx) {
    let Ok(dir) = std::env::var("VERIF_GOLDEN") else { return };
    if ctx.shard != 0 {
        return;
    }
    let mdir = std::path::Path::new(&dir).join("message");
    std::fs::create_dir_all(&mdir).expect("golden dir");
    let mut specs = boundary_specs();
    let strat = proptest::collection::vec(small_msg_strategy(), 48);
    specs.extend(ctx.draw("golden", &strat));
    std::fs::write(mdir.join("empty"), b"").expect("write golden");
    for s in specs {
        let b = wire::serialize(&build(&s));
        if b.len() > 8192 {
            continue;
        }
        let name = format!("{}-{:016x}", s.kind(), hash_of(&b));
        std::fs::write(mdir.join(&name), &b).expect("write golden");
        if let Some(n) = agent_field_len(&s) {
            // the tolerated legacy form
            std::fs::write(mdir.join(format!("{name}-noagent")), &b[..b.len() - n]).expect("write golden");
        }
    }
}

/// 1024 consecutive seeds starting at `block * 1024`.
fn check_ping_new(ctx: &Ctx, block: u32) -> CaseResult {
    for k in 0..1024u64 {
        let seed = (block as u64) * 1024 + k;
        let mut rng = fastrand::Rng::with_seed(seed);
        let p = Ping::new(&mut rng);
        let (z, l) = (p.zeroes.len(), p.ponglen as usize);
        let near = z + 16 >= Ping::MAX_PING_ZEROES as usize || l + 16 >= Ping::MAX_PONG_ZEROES as usize;
        if near || k % 128 == 0 {
            if near {
                ctx.count("ping-new:near-boundary");
                ctx.nontrivial(&seed);
            }
            let spec = MsgSpec::Ping { ponglen: p.ponglen, zeroes: z as u16 };
            if let Err(f) = check_roundtrip(ctx, &spec) {
                return fail(format!("ping-new:{}", f.sig), format!("Ping::new(fastrand seed {seed}) = ping with {z} zero bytes, ponglen {l}: {}", f.msg));
            }
            // a pong of the requested length must be constructible as well
            ensure!(l <= Ping::MAX_PONG_ZEROES as usize, "ping-new:ponglen-above-limit", "Ping::new(seed {seed}) asks for a pong of {l} bytes");
        }
    }
    ctx.count_n("ping-new:draws", 1024);
    Ok(())
}

fn run(ctx: &Ctx) {
    write_golden(ctx);
    if std::env::var("VERIF_GOLDEN_ONLY").is_ok() {
        return;
    }
    ctx.enumerate("boundary", boundary_specs().into_iter(), true, |s: &MsgSpec| check_roundtrip(ctx, s));
    // every boundary message, every way of dropping / cutting its tail by 1..=12 bytes
    ctx.enumerate(
        "boundary-tails",
        boundary_specs().into_iter().flat_map(|s| {
            (1u8..=12).map(move |d| MutantCase { base: s.clone(), muts: vec![Mutation::TruncateBack { drop: d }] })
        }),
        true,
        |c: &MutantCase| check_mutant(ctx, c),
    );
    // Messages built by the node's own randomised constructor (`Ping::new`, used for keep-alives):
    // blocks of consecutive fastrand seeds; every drawn ping near a size boundary (and a sample of the
    // others) goes through the same round-trip clause.
    ctx.run("ping-new", any::<u32>(), ctx.cases(2_000, 40_000), |block: &u32| check_ping_new(ctx, *block));
    ctx.run("roundtrip", msg_strategy(), ctx.cases(20_000, 400_000), |s: &MsgSpec| check_roundtrip(ctx, s));
    ctx.run("mutants", mutant_case(), ctx.cases(100_000, 2_000_000), |c: &MutantCase| check_mutant(ctx, c));
    ctx.run("raw", raw_case(), ctx.cases(40_000, 800_000), |c: &RawCase| check_raw(ctx, c));
}

// ---------------------------------------------------------------------------
// Entry point for the coverage-guided target (/verif/fuzz, target `wire_message`)
// ---------------------------------------------------------------------------

thread_local! {
    static FUZZ_CTX: Ctx = Ctx::new("C15", Tier::Thorough, 0, 0, 1);
}

/// One libFuzzer iteration: clause 2 (bytes that decode re-encode to themselves and round-trip) on
/// arbitrary bytes, plus "decoding never panics". Panics (= libFuzzer crash) with the violation signature.
pub fn fuzz_one(data: &[u8]) {
    FUZZ_CTX.with(|ctx| {
        if let Err(f) = check_bytes(ctx, "fuzz", data, None) {
            if !ctx.is_known(&f.sig) {
                panic!("VIOLATION property=C15 signature={} {}", f.sig, f.msg);
            }
        }
    });
}
