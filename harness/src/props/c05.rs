//! C05 — Collaborative object state is a function of the change set.
use std::collections::{BTreeMap, BTreeSet};

use proptest::prelude::*;
use radicle::cob::issue::{self, Issue};
use radicle::cob::patch::{self, Patch};
use radicle::cob::{ObjectId, TypeName};
use radicle::git::Oid;
use radicle_cob::Evaluate;
use serde::{Deserialize, Serialize};

use crate::core::*;
use crate::ensure;
use crate::lab::cob::*;
use crate::props::c06;

pub const PROP: Prop = Prop {
    id: "C05",
    shards: (16, 16),
    level: "exploration",
    rule: "Change DAGs as in C06 (<= 12 changes, 4 authors, <= 3 parents per change, timestamps from a 3-value domain so \
           ties are the norm, concurrent conflicting edits/labels/lifecycle/comment redactions, a minority of rejected \
           changes) for issues and patches, written as raw change commits. The same commit set is evaluated through \
           cob::get under different reference layouts: (a) one reference per tip, (b) the tips assigned to other \
           namespaces in a generated permutation (reference enumeration order follows the namespace name), (c) extra \
           references at interior changes, (d) a reference at every change, (e) a second repository that received the \
           same commits in a different topological order, (f) additional references at a commit that is no change at all. Oracle: object (PartialEq, includes the timelines), \
           History::tips and the entry set are identical in all layouts. Non-trivial: >= 2 concurrent changes (neither an \
           ancestor of the other) with equal timestamps both kept in the history. Distinct = hash of the case.",
    assumptions: &["commit timestamps are injected through GIT_COMMITTER_DATE (one single-threaded process per shard)"],
    run,
    budget_s: (1200, 7200),
};

#[derive(Debug, Clone, Serialize, Deserialize, Hash)]
pub struct Case {
    history: c06::Case,
    perm: Vec<u16>,
    extra: Vec<u16>,
}

thread_local! {
    static LABS: std::cell::RefCell<Option<(CobLab, CobLab)>> = const { std::cell::RefCell::new(None) };
}

struct Outcome<T> {
    object: T,
    tips: BTreeSet<Oid>,
    entries: BTreeSet<Oid>,
}

fn eval_with<T: Evaluate<radicle::storage::git::Repository>>(
    lab: &CobLab,
    tn: &TypeName,
    oid: &ObjectId,
    refs: &[(u8, Oid)],
) -> Result<Option<Outcome<T>>, String> {
    lab.clear_refs(tn, oid);
    for (ns, target) in refs {
        lab.set_ref(&spare_key(*ns), tn, oid, *target);
    }
    match lab.eval::<T>(tn, oid) {
        Ok(Some(o)) => Ok(Some(Outcome { tips: o.history.tips(), entries: entries(&o.history), object: o.object })),
        Ok(None) => Ok(None),
        Err(e) => Err(e.to_string()),
    }
}

fn judge<T: Evaluate<radicle::storage::git::Repository> + PartialEq + std::fmt::Debug>(
    ctx: &Ctx,
    lab: &CobLab,
    lab2: &CobLab,
    c: &Case,
    tn: &TypeName,
    kind: &str,
) -> CaseResult {
    let b = c06::build(lab, &c.history, tn);
    let oid = ObjectId::from(b.ids[0]);
    let n = b.ids.len();
    let mut by_id: BTreeMap<Oid, usize> = BTreeMap::new();
    for (i, id) in b.ids.iter().enumerate() {
        by_id.entry(*id).or_insert(i);
    }
    let distinct: Vec<Oid> = by_id.keys().copied().collect();
    let mut has_child: BTreeSet<Oid> = BTreeSet::new();
    for i in 0..n {
        for p in &b.parents[i] {
            if b.ids[*p] != b.ids[i] {
                has_child.insert(b.ids[*p]);
            }
        }
    }
    let tips: Vec<Oid> = distinct.iter().filter(|id| !has_child.contains(*id)).copied().collect();

    // (a) canonical layout
    let layout_a: Vec<(u8, Oid)> = tips.iter().enumerate().map(|(j, t)| (j as u8, *t)).collect();
    let base = match eval_with::<T>(lab, tn, &oid, &layout_a) {
        Ok(Some(o)) => o,
        Ok(None) => return fail(format!("{kind}:object-not-found"), "object not found"),
        Err(_) => {
            ctx.count(&format!("{kind}:root-rejected"));
            return Ok(());
        }
    };
    // (b) permuted namespaces: namespace indices 20.. in an order given by the permutation keys
    let mut order: Vec<usize> = (0..tips.len()).collect();
    order.sort_by_key(|j| (c.perm.get(*j).copied().unwrap_or(0), *j));
    let layout_b: Vec<(u8, Oid)> = order.iter().enumerate().map(|(k, j)| (20 + k as u8, tips[*j])).collect();
    // (c) extra references at interior changes
    let mut layout_c = layout_a.clone();
    for (k, x) in c.extra.iter().enumerate() {
        layout_c.push((60 + k as u8, distinct[pick(*x, distinct.len())]));
    }
    // (d) a reference at every change
    let layout_d: Vec<(u8, Oid)> = distinct.iter().enumerate().map(|(k, id)| (100 + k as u8, *id)).collect();

    // (f) references that point at commits which are not change commits at all (a plain commit):
    // they are not part of the change set, so they must not influence the result wherever they are enumerated
    let bogus: Oid = {
        let raw = &lab.repo.backend;
        let sig = git2::Signature::new("lab", "lab@localhost", &git2::Time::new(1_600_000_123, 0)).unwrap();
        let tree = raw.find_tree(raw.treebuilder(None).unwrap().write().unwrap()).unwrap();
        raw.commit(None, &sig, &sig, "not a change", &tree, &[]).unwrap().into()
    };
    let mut layout_f = layout_a.clone();
    for k in 0..3u8 {
        layout_f.push((200 + k, bogus));
    }

    let mut variants: Vec<(&str, Outcome<T>)> = vec![];
    for (name, layout, l) in [
        ("permuted-namespaces", &layout_b, lab),
        ("extra-interior-refs", &layout_c, lab),
        ("ref-at-every-change", &layout_d, lab),
        ("refs-at-non-change-commits", &layout_f, lab),
    ] {
        match eval_with::<T>(l, tn, &oid, layout) {
            Ok(Some(o)) => variants.push((name, o)),
            other => {
                return fail(
                    format!("{kind}:{name}:evaluation-outcome-differs"),
                    format!("layout {name} does not evaluate although the tip layout does: {:?}", other.err()),
                )
            }
        }
    }
    // (e) second repository, other arrival order (children of later index first among the ready ones)
    {
        let mut stored: BTreeSet<usize> = BTreeSet::new();
        let mut ids2: Vec<Option<Oid>> = vec![None; n];
        while stored.len() < n {
            let ready: Vec<usize> = (0..n).filter(|i| !stored.contains(i) && b.parents[*i].iter().all(|p| stored.contains(p))).collect();
            let i = *ready.last().expect("a ready change exists");
            let s = &b.specs[i];
            let e = lab2.store(tn, s.author, Some(lab2.identity_root), vec![], s.tips.clone(), s.contents.clone(), s.ts, s.sig);
            assert_eq!(e.id, b.ids[i], "the same change must get the same id in the second repository");
            ids2[i] = Some(e.id);
            stored.insert(i);
        }
        match eval_with::<T>(lab2, tn, &oid, &layout_b) {
            Ok(Some(o)) => variants.push(("second-repository", o)),
            other => {
                return fail(
                    format!("{kind}:second-repository:evaluation-outcome-differs"),
                    format!("the second repository does not evaluate the object: {:?}", other.err()),
                )
            }
        }
    }
    for (name, v) in &variants {
        ensure!(
            v.entries == base.entries,
            format!("{kind}:{name}:entries-differ"),
            "layout {name}: {} entries vs {} with one reference per tip",
            v.entries.len(),
            base.entries.len()
        );
        ensure!(v.tips == base.tips, format!("{kind}:{name}:tips-differ"), "layout {name}: tips {:?} vs {:?}", v.tips, base.tips);
        if v.object != base.object {
            let a = format!("{:?}", base.object);
            let b2 = format!("{:?}", v.object);
            let at = a.bytes().zip(b2.bytes()).position(|(x, y)| x != y).unwrap_or(0);
            let lo = at.saturating_sub(80);
            return fail(
                format!("{kind}:{name}:state-differs"),
                format!("same change set, different state; near …{}… vs …{}…", &a[lo..(at + 80).min(a.len())], &b2[lo..(at + 80).min(b2.len())]),
            );
        }
    }
    // classification: concurrent kept changes with equal timestamps
    let mut anc: Vec<BTreeSet<usize>> = vec![BTreeSet::new(); n];
    for i in 0..n {
        let mut s = BTreeSet::new();
        for p in &b.parents[i] {
            s.insert(*p);
            s.extend(anc[*p].iter().copied());
        }
        anc[i] = s;
    }
    let kept: Vec<usize> = (1..n).filter(|i| base.entries.contains(&b.ids[*i])).collect();
    let mut tie = false;
    for (x, i) in kept.iter().enumerate() {
        for j in &kept[x + 1..] {
            if b.ids[*i] != b.ids[*j] && !anc[*i].contains(j) && !anc[*j].contains(i) && b.specs[*i].ts == b.specs[*j].ts {
                tie = true;
            }
        }
    }
    ctx.count(&format!("{kind}:cases"));
    ctx.count_n(&format!("{kind}:kept-entries"), base.entries.len() as u64);
    if tie {
        ctx.count(&format!("{kind}:concurrent-equal-timestamp-changes-kept"));
        ctx.nontrivial(c);
        ctx.sample("layouts", c);
    }
    Ok(())
}

fn check(ctx: &Ctx, c: &Case) -> CaseResult {
    let (lab, lab2) = LABS.with(|l| l.borrow_mut().take()).unwrap_or_else(|| (CobLab::new(4, &[0, 1], 1), CobLab::new(4, &[0, 1], 1)));
    assert_eq!(lab.identity_root, lab2.identity_root, "both repositories start from the same identity");
    let r = if c.history.patch {
        judge::<Patch>(ctx, &lab, &lab2, c, &patch::TYPENAME, "patch")
    } else {
        judge::<Issue>(ctx, &lab, &lab2, c, &issue::TYPENAME, "issue")
    };
    LABS.with(|l| *l.borrow_mut() = Some((lab, lab2)));
    r
}

fn run(ctx: &Ctx) {
    let strat = |valid: bool| (c06::case_strategy_with(valid), proptest::collection::vec(any::<u16>(), 0..12), proptest::collection::vec(any::<u16>(), 0..4))
        .prop_map(|(history, perm, extra)| Case { history, perm, extra });
    ctx.run("layouts-mostly-valid", strat(true), ctx.cases(240, 4_000), |c: &Case| check(ctx, c));
    ctx.run("layouts-with-rejections", strat(false), ctx.cases(80, 1_500), |c: &Case| check(ctx, c));
}
