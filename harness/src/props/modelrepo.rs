//! Model-repo lab (C07, C08): a `ReadRepository` answered from a generated model.
//!
//! Only `identity_doc_at`, `reference_oid` and `is_ancestor_of` (plus `id`) are
//! answered; every other method is `unimplemented!()` — reaching one is harness
//! trouble (panic in harness code => exit 2), never a verdict.
use std::cell::RefCell;
use std::collections::BTreeMap;
use std::path::Path;

use radicle::crypto::{PublicKey, Verified};
use radicle::git;
use radicle::git::raw as git2;
use radicle::git::Oid;
use radicle::identity::doc::{Doc, DocAt, DocError, RawDoc};
use radicle::identity::{Did, RepoId, Visibility};
use radicle::storage::refs::{Refs, RefsAt};
use radicle::storage::{
    ReadRepository, Remote, RemoteId, RemoteRepository, Remotes, RepositoryError, ValidateRepository,
    Validations,
};
use serde::{Deserialize, Serialize};

/// Number of distinct actor keys available to the labs.
pub const ACTORS: usize = 6;

/// Deterministic actor keys (real ed25519 keys derived from fixed seeds).
pub fn actor_keys() -> Vec<PublicKey> {
    static KEYS: std::sync::OnceLock<Vec<PublicKey>> = std::sync::OnceLock::new();
    KEYS.get_or_init(|| {
        (0..ACTORS as u8)
            .map(|i| {
                let signer = radicle::crypto::test::signer::MockSigner::from_seed([i + 1; 32]);
                *radicle::crypto::Signer::public_key(&signer)
            })
            .collect()
    })
    .clone()
}

/// Synthetic object id: `tag` separates id spaces (ops, docs, commits), `n` is the index.
pub fn oid_of(tag: u8, n: u32) -> Oid {
    let mut b = [0u8; 20];
    b[0] = tag;
    b[1..5].copy_from_slice(&n.to_be_bytes());
    b[19] = 1;
    Oid::try_from(&b[..]).unwrap()
}

pub const TAG_OP: u8 = 0xa0;
pub const TAG_DOC: u8 = 0xd0;
pub const TAG_COMMIT: u8 = 0xc0;
pub const TAG_MISSING: u8 = 0xee;

/// An identity document of the model: delegate set as a bit mask over actor indices, and threshold.
#[derive(Debug, Clone, Serialize, Deserialize, Hash, PartialEq, Eq)]
pub struct DocSpec {
    pub delegates: u8,
    pub threshold: u8,
}

impl DocSpec {
    pub fn is_delegate(&self, actor: usize) -> bool {
        self.delegates >> actor & 1 == 1
    }
    pub fn count(&self) -> usize {
        (self.delegates & ((1 << ACTORS) - 1)).count_ones() as usize
    }
    /// Normalise to a valid document: at least one delegate, threshold in 1..=count.
    pub fn normalised(&self) -> DocSpec {
        let mut d = self.delegates & ((1 << ACTORS) - 1);
        if d == 0 {
            d = 1;
        }
        let n = d.count_ones() as u8;
        DocSpec { delegates: d, threshold: self.threshold.clamp(1, n) }
    }
}

pub fn build_doc(spec: &DocSpec, keys: &[PublicKey], ix: usize) -> DocAt {
    let spec = spec.normalised();
    let project = radicle::identity::project::Project::new(
        "model".to_string().try_into().unwrap(),
        "model repository".to_string(),
        git::RefString::try_from("master").unwrap(),
    )
    .unwrap();
    let delegates: Vec<Did> =
        (0..ACTORS).filter(|a| spec.is_delegate(*a)).map(|a| Did::from(keys[a])).collect();
    let doc: Doc = RawDoc::new(project, delegates, spec.threshold as usize, Visibility::Public)
        .verified()
        .expect("model document is valid");
    let (blob, _) = doc.encode().unwrap();
    DocAt { commit: oid_of(TAG_DOC, ix as u32), blob, doc }
}

/// Synthetic commit DAG: commit `i` has the parents given by `parents[i]` (bit mask over `j < i`).
#[derive(Debug, Clone, Serialize, Deserialize, Hash, PartialEq, Eq)]
pub struct DagSpec {
    pub parents: Vec<u8>,
}

impl DagSpec {
    pub fn len(&self) -> usize {
        self.parents.len()
    }
    /// `a` is a strict ancestor of `h` (git `graph_descendant_of(h, a)` semantics).
    pub fn is_strict_ancestor(&self, a: usize, h: usize) -> bool {
        if a >= h || h >= self.parents.len() {
            return false;
        }
        // reach[j] for j<h: j reachable from h through parent edges
        let mut reach = 0u32;
        let mut stack = vec![h];
        while let Some(x) = stack.pop() {
            for j in 0..x {
                if self.parents[x] >> j & 1 == 1 && reach >> j & 1 == 0 {
                    reach |= 1 << j;
                    stack.push(j);
                }
            }
        }
        reach >> a & 1 == 1
    }
}

pub fn commit_oid(i: usize) -> Oid {
    oid_of(TAG_COMMIT, i as u32)
}

pub struct ModelRepo {
    pub rid: RepoId,
    pub keys: Vec<PublicKey>,
    pub docs: BTreeMap<Oid, DocAt>,
    pub dag: DagSpec,
    /// default-branch head per actor index (commit index); moves during a history.
    pub heads: RefCell<Vec<Option<usize>>>,
    /// number of calls, by method (to know what the code under test really asked)
    pub calls: RefCell<BTreeMap<&'static str, u64>>,
}

impl ModelRepo {
    pub fn new(docs: &[DocSpec], dag: DagSpec, heads: Vec<Option<usize>>) -> Self {
        let keys = actor_keys();
        let docs: BTreeMap<Oid, DocAt> = docs
            .iter()
            .enumerate()
            .map(|(i, s)| {
                let d = build_doc(s, &keys, i);
                (d.commit, d)
            })
            .collect();
        let mut heads = heads;
        heads.resize(ACTORS, None);
        ModelRepo {
            rid: RepoId::from(oid_of(0x1d, 0)),
            keys,
            docs,
            dag,
            heads: RefCell::new(heads),
            calls: RefCell::new(BTreeMap::new()),
        }
    }
    pub fn doc_oid(ix: usize) -> Oid {
        oid_of(TAG_DOC, ix as u32)
    }
    pub fn actor_of(&self, key: &PublicKey) -> Option<usize> {
        self.keys.iter().position(|k| k == key)
    }
    pub fn commit_index(&self, oid: Oid) -> Option<usize> {
        (0..self.dag.len()).find(|i| commit_oid(*i) == oid)
    }
    pub fn set_head(&self, actor: usize, commit: Option<usize>) {
        self.heads.borrow_mut()[actor] = commit;
    }
    pub fn head(&self, actor: usize) -> Option<usize> {
        self.heads.borrow()[actor]
    }
    fn called(&self, m: &'static str) {
        *self.calls.borrow_mut().entry(m).or_default() += 1;
    }
}

impl RemoteRepository for ModelRepo {
    fn remote(&self, _id: &RemoteId) -> Result<Remote<Verified>, radicle::storage::refs::Error> {
        unimplemented!("ModelRepo::remote")
    }
    fn remotes(&self) -> Result<Remotes<Verified>, radicle::storage::refs::Error> {
        unimplemented!("ModelRepo::remotes")
    }
    fn remote_refs_at(&self) -> Result<Vec<RefsAt>, radicle::storage::refs::Error> {
        unimplemented!("ModelRepo::remote_refs_at")
    }
}

impl ValidateRepository for ModelRepo {
    fn validate_remote(&self, _remote: &Remote<Verified>) -> Result<Validations, radicle::storage::Error> {
        unimplemented!("ModelRepo::validate_remote")
    }
}

impl ReadRepository for ModelRepo {
    fn id(&self) -> RepoId {
        self.rid
    }
    fn is_empty(&self) -> Result<bool, git2::Error> {
        unimplemented!("ModelRepo::is_empty")
    }
    fn path(&self) -> &Path {
        unimplemented!("ModelRepo::path")
    }
    fn blob_at<P: AsRef<Path>>(&self, _commit: Oid, _path: P) -> Result<git2::Blob, git::ext::Error> {
        unimplemented!("ModelRepo::blob_at")
    }
    fn blob(&self, _oid: Oid) -> Result<git2::Blob, git::ext::Error> {
        unimplemented!("ModelRepo::blob")
    }
    fn head(&self) -> Result<(git::Qualified, Oid), RepositoryError> {
        unimplemented!("ModelRepo::head")
    }
    fn canonical_head(&self) -> Result<(git::Qualified, Oid), RepositoryError> {
        unimplemented!("ModelRepo::canonical_head")
    }
    fn identity_head(&self) -> Result<Oid, RepositoryError> {
        // the repository's *current* identity is the last document of the model
        self.called("identity_head");
        Ok(Self::doc_oid(self.docs.len() - 1))
    }
    fn identity_head_of(&self, _remote: &RemoteId) -> Result<Oid, git::ext::Error> {
        unimplemented!("ModelRepo::identity_head_of")
    }
    fn identity_root(&self) -> Result<Oid, RepositoryError> {
        unimplemented!("ModelRepo::identity_root")
    }
    fn identity_root_of(&self, _remote: &RemoteId) -> Result<Oid, RepositoryError> {
        unimplemented!("ModelRepo::identity_root_of")
    }
    fn canonical_identity_head(&self) -> Result<Oid, RepositoryError> {
        self.called("canonical_identity_head");
        Ok(Self::doc_oid(self.docs.len() - 1))
    }
    fn reference(
        &self,
        _remote: &RemoteId,
        _reference: &git::Qualified,
    ) -> Result<git2::Reference, git::ext::Error> {
        unimplemented!("ModelRepo::reference")
    }
    fn commit(&self, _oid: Oid) -> Result<git2::Commit, git::ext::Error> {
        unimplemented!("ModelRepo::commit")
    }
    fn revwalk(&self, _head: Oid) -> Result<git2::Revwalk, git2::Error> {
        unimplemented!("ModelRepo::revwalk")
    }
    fn contains(&self, _oid: Oid) -> Result<bool, git2::Error> {
        unimplemented!("ModelRepo::contains")
    }
    fn is_ancestor_of(&self, ancestor: Oid, head: Oid) -> Result<bool, git::ext::Error> {
        self.called("is_ancestor_of");
        let a = self.commit_index(ancestor).expect("ModelRepo::is_ancestor_of: commit of the model");
        let h = self.commit_index(head).expect("ModelRepo::is_ancestor_of: head of the model");
        Ok(self.dag.is_strict_ancestor(a, h))
    }
    fn reference_oid(&self, remote: &RemoteId, reference: &git::Qualified) -> Result<Oid, git2::Error> {
        self.called("reference_oid");
        assert_eq!(
            reference.as_str(),
            "refs/heads/master",
            "ModelRepo::reference_oid: only the default branch is modelled"
        );
        let not_found = || {
            git2::Error::new(
                git2::ErrorCode::NotFound,
                git2::ErrorClass::Reference,
                format!("could not find {reference} for {remote}"),
            )
        };
        let actor = self.actor_of(remote).ok_or_else(not_found)?;
        let head = self.heads.borrow()[actor].ok_or_else(not_found)?;
        Ok(commit_oid(head))
    }
    fn references_of(&self, _remote: &RemoteId) -> Result<Refs, radicle::storage::Error> {
        unimplemented!("ModelRepo::references_of")
    }
    fn references_glob(
        &self,
        _pattern: &git::PatternStr,
    ) -> Result<Vec<(git::Qualified, Oid)>, git::ext::Error> {
        unimplemented!("ModelRepo::references_glob")
    }
    fn identity_doc_at(&self, head: Oid) -> Result<DocAt, DocError> {
        self.called("identity_doc_at");
        Ok(self.docs.get(&head).expect("ModelRepo::identity_doc_at: document of the model").clone())
    }
    fn merge_base(&self, _left: &Oid, _right: &Oid) -> Result<Oid, git::ext::Error> {
        unimplemented!("ModelRepo::merge_base")
    }
}

/// Run code under test; a panic raised inside this model (an unmodelled repository method was
/// reached, or a model precondition was broken) is harness trouble (exit 2), any other panic is
/// reported as a failure of the case with a `panic@file` signature.
pub fn guarded<R>(f: impl FnOnce() -> R) -> Result<R, crate::core::Fail> {
    match crate::core::catch(f) {
        Ok(r) => Ok(r),
        Err((loc, msg)) => {
            if loc.contains("modelrepo.rs") {
                eprintln!("HARNESS: model repository trouble at {loc}: {msg}");
                std::process::exit(2);
            }
            Err(crate::core::Fail {
                sig: format!("panic@{}", crate::core::loc_file(&loc)),
                msg: format!("panic at {loc}: {msg}"),
            })
        }
    }
}

/// Something the harness itself relies on does not hold: exit 2, never a verdict.
pub fn harness_trouble(msg: &str) -> ! {
    eprintln!("HARNESS: {msg}");
    std::process::exit(2)
}
