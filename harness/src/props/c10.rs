//! C10 — Gossip is authenticated, fresh and never echoed back.
use std::collections::{BTreeMap, BTreeSet};

use proptest::prelude::*;
use radicle::identity::Visibility;
use radicle::node::device::Device;
use radicle_node::prelude::*;
use radicle_node::service::io::Io;
use radicle_node::service::message::*;
use radicle_node::service::policy::{Scope, SeedingPolicy};
use radicle_node::service::ServiceState;
use radicle_node::Link;
use serde::{Deserialize, Serialize};

use crate::core::*;
use crate::ensure;
use crate::lab::service::*;

pub const PROP: Prop = Prop {
    id: "C10",
    shards: (16, 16),
    level: "exploration",
    rule: "Event sequences (<= 40) against a real Service (sqlite db, MockStorage, relay on): deliveries of \
           node/inventory/refs announcements by 3 connectable peers on behalf of 6 announcers (peers, an address-book-known \
           node, an unknown node, node N itself) with timestamp classes {older, equal, newer, now, +59min, +61min} relative to \
           the stored entry and signature modes {valid, bit-flipped, other key, altered after signing}; byte-identical \
           re-deliveries by other relayers; clock ticks; connects/disconnects; subscriptions. Oracle: gossip-store delta and \
           every Io::Write are checked against the statement. Non-trivial: a sequence in which an announcement was delivered \
           by >= 2 relayers with a later tick, or a forged/equal/older/too-future delivery was followed by a relay \
           opportunity (tick or accepted announcement while >= 2 peers connected). Distinct = hash of the event list.",
    assumptions: &[
        "the runtime reacts to Io::Disconnect by calling Service::disconnected at once (emulated)",
        "timestamp 0 is outside this property's domain (it is C13's finding)",
        "writes made while answering a Subscribe message are checked for authenticity and for not going to the announcer; \
         sending stored history back to a peer that once delivered it is classified, not failed (the peer asked for it)",
    ],
    run,
    budget_s: (900, 7200),
};

#[derive(Debug, Clone, Copy, Serialize, Deserialize, Hash, PartialEq, Eq)]
pub enum Kind {
    Node,
    Inventory,
    Refs(u8),
}

#[derive(Debug, Clone, Copy, Serialize, Deserialize, Hash, PartialEq, Eq)]
pub enum Ts {
    Older,
    Equal,
    Newer,
    Now,
    Plus59m,
    Plus61m,
    EdgeExactlyOneHour,
    EdgeOneHourPlus1,
}

#[derive(Debug, Clone, Copy, Serialize, Deserialize, Hash, PartialEq, Eq)]
pub enum Sig {
    Valid,
    BitFlip,
    OtherKey,
    Altered,
}

#[derive(Debug, Clone, Serialize, Deserialize, Hash)]
pub enum Ev {
    Deliver { relayer: u8, announcer: u8, kind: Kind, ts: Ts, variant: u8, sig: Sig },
    Redeliver { relayer: u8, which: u16 },
    Tick { class: u8 },
    Connect { peer: u8, outbound: bool },
    Disconnect { peer: u8 },
    Subscribe { peer: u8 },
}

#[derive(Debug, Clone, Serialize, Deserialize, Hash)]
pub struct Case {
    seed: u8,
    relay_always: bool,
    events: Vec<Ev>,
}

const PEERS: usize = 3; // connectable peers: remotes 0..3
const KNOWN: usize = 3; // announcer known through the address book
// remotes 2 and 4 are not in the address book until they announce themselves
const SELF_: usize = 5; // node N itself
const TICKS: [u64; 6] = [0, 1_000, 6_000, 30_000, 600_000, 3_660_000];

fn ev_strategy() -> impl Strategy<Value = Ev> {
    let kind = prop_oneof![
        3 => Just(Kind::Node),
        4 => Just(Kind::Inventory),
        2 => Just(Kind::Refs(0)),
        1 => Just(Kind::Refs(1)),
        1 => Just(Kind::Refs(2)),
    ];
    let ts = prop_oneof![
        2 => Just(Ts::Older),
        3 => Just(Ts::Equal),
        6 => Just(Ts::Newer),
        3 => Just(Ts::Now),
        1 => Just(Ts::Plus59m),
        1 => Just(Ts::Plus61m),
        1 => Just(Ts::EdgeExactlyOneHour),
        1 => Just(Ts::EdgeOneHourPlus1),
    ];
    let sig = prop_oneof![
        10 => Just(Sig::Valid),
        1 => Just(Sig::BitFlip),
        1 => Just(Sig::OtherKey),
        1 => Just(Sig::Altered),
    ];
    prop_oneof![
        10 => (0u8..PEERS as u8, 0u8..6, kind, ts, 0u8..3, sig)
            .prop_map(|(relayer, announcer, kind, ts, variant, sig)| Ev::Deliver { relayer, announcer, kind, ts, variant, sig }),
        6 => (0u8..PEERS as u8, any::<u16>()).prop_map(|(relayer, which)| Ev::Redeliver { relayer, which }),
        5 => (0u8..TICKS.len() as u8).prop_map(|class| Ev::Tick { class }),
        2 => (0u8..PEERS as u8, any::<bool>()).prop_map(|(peer, outbound)| Ev::Connect { peer, outbound }),
        1 => (0u8..PEERS as u8).prop_map(|peer| Ev::Disconnect { peer }),
        2 => (0u8..PEERS as u8).prop_map(|peer| Ev::Subscribe { peer }),
    ]
}

fn case_strategy(max: usize) -> impl Strategy<Value = Case> {
    (any::<u8>(), proptest::bool::weighted(0.8), proptest::collection::vec(ev_strategy(), 1..max))
        .prop_map(|(seed, relay_always, events)| Case { seed, relay_always, events })
}

struct Delivered {
    ann: Announcement,
    bytes: Vec<u8>,
    valid: bool,
}

fn check(ctx: &Ctx, c: &Case) -> CaseResult {
    // --- world
    let tmp_remotes: Vec<Remote> = (0..5u8).map(|i| Remote::new(i, false)).collect();
    let ids: Vec<NodeId> = tmp_remotes.iter().map(|r| r.id).collect();
    let repos = vec![
        mock_repo(0, &[ids[0]], Visibility::Public),
        mock_repo(1, &[ids[1]], Visibility::Public),
    ];
    let rids = [repos[0].0, repos[1].0, mock_repo(2, &[ids[2]], Visibility::Public).0]; // rid 2 is not in storage
    let relay_always = c.relay_always;
    let mut lab: Lab = Lab::new(LabConfig {
        seed: c.seed as u64,
        remotes: 5,
        routable_remotes: false,
        repos,
        policy: SeedingPolicy::Allow { scope: Scope::All },
        tweak: Box::new(move |cfg| {
            cfg.relay = if relay_always { radicle::node::config::Relay::Always } else { radicle::node::config::Relay::Auto };
        }),
        import_addresses: vec![0, 1, KNOWN],
    });
    let n = lab.nid();
    // peers 0 and 1 start connected and subscribed
    for p in 0..2 {
        lab.connect_inbound(p);
        lab.deliver(p, Message::Subscribe(Subscribe::all()));
    }
    lab.drain();

    let mut delivered: Vec<Delivered> = vec![];
    let mut delivered_by: BTreeMap<Vec<u8>, BTreeSet<NodeId>> = BTreeMap::new();
    let mut known: BTreeSet<NodeId> = BTreeSet::new();
    for k in [0, 1, KNOWN] {
        known.insert(lab.remotes[k].id);
    }
    let mut accepted: BTreeSet<Vec<u8>> = BTreeSet::new();
    // classification
    let mut multi_relayer_then_tick = false;
    let mut pending_multi = false;
    let mut bad_then_opportunity = false;
    let mut pending_bad = false;

    let other_key: Device<radicle::crypto::test::signer::MockSigner> = Device::mock_from_seed([0x77; 32]);

    for (step, ev) in c.events.iter().enumerate() {
        let before: BTreeMap<_, Announcement> = lab.gossip_dump().into_iter().map(|a| (ann_key(&a), a)).collect();
        let now = lab.now();
        let now_ms = now.as_millis() as u64;
        let mut this_delivery: Option<usize> = None; // index into delivered
        let mut subscribe_by: Option<NodeId> = None;
        let mut this_relayer: Option<NodeId> = None;

        match ev {
            Ev::Deliver { relayer, announcer, kind, ts, variant, sig } => {
                let relayer = *relayer as usize;
                if !lab.is_connected(relayer) {
                    lab.connect_inbound(relayer);
                    lab.drain();
                }
                let announcer_ix = *announcer as usize;
                let (announcer_id, signer): (NodeId, &Device<_>) = if announcer_ix == SELF_ {
                    (n, lab.node.signer())
                } else {
                    (lab.remotes[announcer_ix].id, &lab.remotes[announcer_ix].signer)
                };
                let key = match kind {
                    Kind::Node => (announcer_id, 0u8, None),
                    Kind::Inventory => (announcer_id, 1u8, None),
                    Kind::Refs(r) => (announcer_id, 2u8, Some(rids[*r as usize])),
                };
                let last: Option<u64> = before.get(&key).map(|a| *a.timestamp());
                let t: u64 = match ts {
                    Ts::Older => last.map(|l| l.saturating_sub(1 + *variant as u64 * 500)).unwrap_or(now_ms - 5_000).max(1),
                    Ts::Equal => last.unwrap_or(now_ms),
                    Ts::Newer => last.map(|l| l + 1 + *variant as u64).unwrap_or(now_ms - 1_000),
                    Ts::Now => now_ms,
                    Ts::Plus59m => now_ms + 59 * 60_000,
                    Ts::Plus61m => now_ms + 61 * 60_000,
                    Ts::EdgeExactlyOneHour => now_ms + 3_600_000,
                    Ts::EdgeOneHourPlus1 => now_ms + 3_600_001,
                };
                let timestamp = Timestamp::try_from(t).unwrap();
                let msg: AnnouncementMessage = match kind {
                    Kind::Node => {
                        let alias = format!("alias{variant}");
                        // seed feature off for variant 2
                        let mut na = if announcer_ix == SELF_ {
                            lab.remotes[0].node_announcement(timestamp, &alias, *variant != 2)
                        } else {
                            lab.remotes[announcer_ix].node_announcement(timestamp, &alias, *variant != 2)
                        };
                        na.timestamp = timestamp;
                        na.into()
                    }
                    Kind::Inventory => InventoryAnnouncement {
                        inventory: rids[..(*variant as usize % 3) + 1].to_vec().try_into().unwrap(),
                        timestamp,
                    }
                    .into(),
                    Kind::Refs(r) => RefsAnnouncement {
                        rid: rids[*r as usize],
                        refs: vec![refs_at(announcer_id, *variant)].try_into().unwrap(),
                        timestamp,
                    }
                    .into(),
                };
                let mut ann = match sig {
                    Sig::OtherKey => {
                        let mut a = msg.signed(&other_key);
                        a.node = announcer_id;
                        a
                    }
                    _ => msg.signed(signer),
                };
                let mut valid = true;
                match sig {
                    Sig::Valid => {}
                    Sig::BitFlip => {
                        let mut b: [u8; 64] = **ann.signature;
                        b[(*variant as usize * 13) % 64] ^= 1 << (*variant % 8);
                        ann.signature = radicle::crypto::Signature::from(b);
                        valid = false;
                    }
                    Sig::OtherKey => valid = false,
                    Sig::Altered => {
                        // change the signed content after signing
                        match &mut ann.message {
                            AnnouncementMessage::Node(m) => m.timestamp = Timestamp::try_from(t + 1).unwrap(),
                            AnnouncementMessage::Inventory(m) => m.timestamp = Timestamp::try_from(t + 1).unwrap(),
                            AnnouncementMessage::Refs(m) => m.timestamp = Timestamp::try_from(t + 1).unwrap(),
                        }
                        valid = false;
                    }
                }
                let bytes = ann_bytes(&ann);
                delivered.push(Delivered { ann: ann.clone(), bytes: bytes.clone(), valid });
                this_delivery = Some(delivered.len() - 1);
                this_relayer = Some(lab.remotes[relayer].id);
                ctx.count(&format!("deliver:{:?}/{:?}/{:?}", kind_name(kind), ts, sig));
                lab.deliver(relayer, Message::Announcement(ann));
            }
            Ev::Redeliver { relayer, which } => {
                if delivered.is_empty() {
                    continue;
                }
                let relayer = *relayer as usize;
                if !lab.is_connected(relayer) {
                    lab.connect_inbound(relayer);
                    lab.drain();
                }
                let ix = pick(*which, delivered.len());
                this_relayer = Some(lab.remotes[relayer].id);
                this_delivery = Some(ix);
                ctx.count("redeliver");
                let ann = delivered[ix].ann.clone();
                lab.deliver(relayer, Message::Announcement(ann));
            }
            Ev::Tick { class } => {
                lab.elapse(TICKS[*class as usize]);
                if pending_multi && *class >= 2 {
                    multi_relayer_then_tick = true;
                }
                if pending_bad && *class >= 2 {
                    bad_then_opportunity = true;
                }
            }
            Ev::Connect { peer, outbound } => {
                let p = *peer as usize;
                if *outbound {
                    lab.connect_outbound(p);
                } else {
                    lab.connect_inbound(p);
                }
            }
            Ev::Disconnect { peer } => {
                let p = *peer as usize;
                if let Some(link) = lab.session_link(p) {
                    lab.disconnect(p, link);
                }
            }
            Ev::Subscribe { peer } => {
                let p = *peer as usize;
                if lab.is_connected(p) {
                    subscribe_by = Some(lab.remotes[p].id);
                    lab.deliver(p, Message::Subscribe(Subscribe::all()));
                }
            }
        }

        // ---- observe
        let mut ios = lab.drain();
        let after: BTreeMap<_, Announcement> = lab.gossip_dump().into_iter().map(|a| (ann_key(&a), a)).collect();

        // (A) store delta
        for (key, e) in &after {
            if e.node == n {
                continue;
            }
            if before.get(key) == Some(e) {
                continue;
            }
            let Some(dix) = this_delivery else {
                return fail("store:changed-without-delivery", format!("step {step} {ev:?}: store entry {key:?} changed"));
            };
            let d = &delivered[dix];
            ensure!(d.ann == *e, "store:entry-differs-from-delivery", "step {step}: stored {e:?} but delivered {:?}", d.ann);
            ensure!(d.valid, "store:invalid-signature", "step {step}: stored an announcement whose signature does not verify: {e:?}");
            let t = *e.timestamp();
            ensure!(
                t <= now_ms + 3_600_000,
                "store:too-far-in-future",
                "step {step}: stored announcement with t={t} at now={now_ms}"
            );
            if let Some(prev) = before.get(key) {
                ensure!(
                    t > *prev.timestamp(),
                    "store:not-strictly-newer",
                    "step {step}: replaced t={} with t={t} for {key:?}",
                    *prev.timestamp()
                );
            }
            if key.1 != 0 {
                ensure!(
                    known.contains(&e.node),
                    "store:unknown-announcer",
                    "step {step}: stored inventory/refs of {} without any node announcement",
                    e.node
                );
            }
            accepted.insert(d.bytes.clone());
        }
        // Who delivered what: a delivery counts when the node processed it as gossip, i.e. it was
        // validly signed, not too far in the future, and after it the store holds this announcement
        // or a newer one of the same key (accepted now, duplicate, or stale). Deliveries the node
        // dropped before that point (forged, too-future, unknown announcer, own) are classified only.
        if let (Some(dix), Some(rid)) = (this_delivery, this_relayer) {
            let d = &delivered[dix];
            let t = *d.ann.timestamp();
            let processed = d.valid
                && t <= now_ms + 3_600_000
                && d.ann.node != n
                && after.get(&ann_key(&d.ann)).map(|a| *a.timestamp() >= t).unwrap_or(false);
            if processed {
                let set = delivered_by.entry(d.bytes.clone()).or_default();
                set.insert(rid);
                if set.len() >= 2 {
                    pending_multi = true;
                }
            } else {
                ctx.count("classified:delivery-dropped-before-store");
            }
        }
        // known announcers: a validly signed node announcement was delivered (over-approximation)
        if let Some(dix) = this_delivery {
            let d = &delivered[dix];
            if d.valid && matches!(d.ann.message, AnnouncementMessage::Node(_)) {
                known.insert(d.ann.node);
            }
            if !d.valid || !after.values().any(|a| *a == d.ann) {
                pending_bad = true;
            } else if pending_bad && lab.node.sessions().connected().count() >= 2 {
                bad_then_opportunity = true;
            }
        }

        // emulate the runtime: disconnect requested → disconnected
        let mut more = vec![];
        for io in &ios {
            if let Io::Disconnect(id, _) = io {
                if let Some(s) = lab.node.sessions().get(id) {
                    let link = s.link;
                    lab.node.service.disconnected(*id, link, &radicle_node::service::DisconnectReason::connection());
                    more.extend(lab.drain());
                }
            }
        }
        ios.extend(more);

        // (B) writes
        for io in &ios {
            let Io::Write(p, msgs) = io else { continue };
            for m in msgs {
                let Message::Announcement(x) = m else { continue };
                if x.node == n {
                    continue;
                }
                let bytes = ann_bytes(x);
                ensure!(
                    accepted.contains(&bytes),
                    "relay:never-accepted",
                    "step {step} {ev:?}: wrote to {p} an announcement that never passed the store checks: {x:?}"
                );
                ensure!(*p != x.node, "relay:to-announcer", "step {step} {ev:?}: relayed {x:?} to its announcer");
                let from_p = delivered_by.get(&bytes).map(|s| s.contains(p)).unwrap_or(false);
                if from_p {
                    if subscribe_by == Some(*p) {
                        ctx.count("classified:history-replayed-to-a-peer-that-delivered-it");
                    } else {
                        let shape = match &x.message {
                            AnnouncementMessage::Node(_) => "node",
                            AnnouncementMessage::Inventory(_) => "inventory",
                            AnnouncementMessage::Refs(_) => "refs",
                        };
                        return fail(
                            format!("relay:echo-to-relayer:{shape}"),
                            format!("step {step} {ev:?}: relayed to {p} an announcement that {p} had delivered to us: {x:?}"),
                        );
                    }
                }
                ctx.count("relayed-writes");
            }
        }
        let _ = Link::Inbound;
    }

    if accepted.len() > 0 {
        ctx.count("case:some-accepted");
    }
    if multi_relayer_then_tick {
        ctx.count("case:multi-relayer-then-tick");
    }
    if bad_then_opportunity {
        ctx.count("case:rejected-then-relay-opportunity");
    }
    if multi_relayer_then_tick || bad_then_opportunity {
        ctx.nontrivial(&c.events);
        ctx.sample("sequences", c);
    }
    Ok(())
}

fn kind_name(k: &Kind) -> &'static str {
    match k {
        Kind::Node => "node",
        Kind::Inventory => "inv",
        Kind::Refs(_) => "refs",
    }
}

fn run(ctx: &Ctx) {
    ctx.run("sequences", case_strategy(40), ctx.cases(1_600, 40_000), |c: &Case| check(ctx, c));
    ctx.run("short-sequences", case_strategy(8), ctx.cases(1_600, 40_000), |c: &Case| check(ctx, c));
}
