pub mod core;
pub mod lab;
pub mod props;
