pub mod core;
pub mod props;
