#![no_main]
use libfuzzer_sys::fuzz_target;

#[global_allocator]
static GLOBAL: vcheck::core::alloc_guard::Guard = vcheck::core::alloc_guard::Guard;

fuzz_target!(|data: &[u8]| {
    vcheck::props::c14::fuzz_one(data);
});
