#![no_main]
use libfuzzer_sys::fuzz_target;

fuzz_target!(|data: &[u8]| {
    vcheck::props::c13::fuzz_git_request(data);
});
