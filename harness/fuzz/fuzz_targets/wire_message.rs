#![no_main]
use libfuzzer_sys::fuzz_target;

fuzz_target!(|data: &[u8]| {
    vcheck::props::c15::fuzz_one(data);
});
