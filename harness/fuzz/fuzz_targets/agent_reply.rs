#![no_main]
use libfuzzer_sys::fuzz_target;

fuzz_target!(|data: &[u8]| {
    vcheck::props::c27::fuzz_agent_reply(data);
});
