#!/bin/bash
# usage: tools/fuzz_campaign.sh <property> <target> <runs> [<max_len>]
# Coverage-guided campaign (cargo-fuzz / libFuzzer, nightly, ASan) for one target of /verif/harness/fuzz,
# built from /repo's working tree. Fixed work: -runs=<runs> -seed=$VERIF_SEED on a fresh corpus seeded with
# the golden encodings the proptest checks write (VERIF_GOLDEN) and the committed inputs in
# replays/fuzz/<target>/. Prints one JSON line with what was covered. A crash is copied to
# replays/new/ and reported as  VIOLATION property=<id> replay=<file>  with exit 1; build or tool trouble is exit 2.
set -u
PROP="$1"; TARGET="$2"; RUNS="$3"; MAXLEN="${4:-4096}"
SEED="${VERIF_SEED:-1}"; [ "$SEED" = 0 ] && SEED=4294967295
V="${VERIF_DIR:-/verif}"
export CARGO_NET_OFFLINE=true
cd /verif/harness || exit 2
(
  flock 9
  cargo +nightly fuzz build "$TARGET" > /verif/target/build-fuzz-$TARGET.log 2>&1
) 9>/verif/target/.build-fuzz.lock
BIN=/verif/target/x86_64-unknown-linux-gnu/release/$TARGET
[ -x "$BIN" ] || { echo "HARNESS: fuzz build failed:" >&2; tail -n 30 /verif/target/build-fuzz-$TARGET.log >&2; exit 2; }
W=$(mktemp -d /verif/target/fuzz-$TARGET.XXXXXX)
mkdir -p $W/corpus $W/golden $W/artifacts $W/vd/evidence $W/vd/replays/new $W/vd/target "$V/replays/new"
case "$TARGET" in
  wire_message) VERIF_DIR=$W/vd VERIF_GOLDEN_ONLY=1 VERIF_GOLDEN=$W/golden /verif/target/debug/vcheck C15 quick >/dev/null 2>&1; cp $W/golden/*/* $W/corpus/ 2>/dev/null ;;
  wire_frames)  VERIF_DIR=$W/vd VERIF_GOLDEN_ONLY=1 VERIF_GOLDEN=$W/golden /verif/target/debug/vcheck C14 quick >/dev/null 2>&1
                for f in $W/golden/*/*; do [ -f "$f" ] && { printf '\005\003'; cat "$f"; } > $W/corpus/g-$(basename "$f"); done ;;
  git_request)  printf '0044git-upload-pack /rad:z3gqcJUoA1n9HaHKufZs5FCSGazv5\0host=seed.example\0' > $W/corpus/valid
                printf '0004' > $W/corpus/min; printf '0400' > $W/corpus/max ;;
  agent_reply)  printf '\014\000\000\000\001\000\000\000\063\000\000\000\013ssh-ed25519\000\000\000\040AAAAAAAAAAAAAAAAAAAAAAAAAAAAAAAA\000\000\000\001c' > $W/corpus/identities
                printf '\016\000\000\000\123\000\000\000\013ssh-ed25519\000\000\000\100AAAAAAAAAAAAAAAAAAAAAAAAAAAAAAAAAAAAAAAAAAAAAAAAAAAAAAAAAAAAAAAA' > $W/corpus/signature
                printf '\005' > $W/corpus/failure; printf '\006' > $W/corpus/success ;;
esac
[ -d /verif/replays/fuzz/$TARGET ] && cp /verif/replays/fuzz/$TARGET/* $W/corpus/ 2>/dev/null
NSEEDS=$(ls $W/corpus | wc -l)
START=$(date +%s)
"$BIN" $W/corpus -runs="$RUNS" -seed="$SEED" -max_len="$MAXLEN" -len_control=0 -malloc_limit_mb=64 -rss_limit_mb=4096 \
   -timeout=30 -artifact_prefix=$W/artifacts/ -print_final_stats=1 > $W/log 2>&1
RC=$?
WALL=$(( $(date +%s) - START ))
COV=$(grep -oE "cov: [0-9]+" $W/log | tail -1 | grep -oE "[0-9]+"); FT=$(grep -oE "ft: [0-9]+" $W/log | tail -1 | grep -oE "[0-9]+")
EXECS=$(grep -oE "stat::number_of_executed_units: [0-9]+" $W/log | grep -oE "[0-9]+$")
CORP=$(ls $W/corpus | wc -l)
echo "{\"engine\": \"libFuzzer (cargo-fuzz, ASan)\", \"target\": \"$TARGET\", \"runs_requested\": $RUNS, \"executed_units\": ${EXECS:-0}, \"seed\": $SEED, \"seed_inputs\": $NSEEDS, \"final_corpus\": $CORP, \"edges_covered\": ${COV:-0}, \"features\": ${FT:-0}, \"max_len\": $MAXLEN, \"exit\": $RC, \"wall_s\": $WALL}"
if [ $RC -ne 0 ]; then
  A=$(ls $W/artifacts/* 2>/dev/null | head -1)
  if [ -n "$A" ]; then
    # a unit that ran into libFuzzer's time or RSS limit decides nothing (exit 2); a single oversized
    # allocation ("malloc(N)" above -malloc_limit_mb) is the memory clause and is a violation like any crash
    case "$(basename $A)" in
      timeout-*|slow-unit-*) echo "HARNESS: fuzz unit hit the time limit (inconclusive): $A" >&2; rm -rf $W; exit 2 ;;
      oom-*) grep -q "malloc(" $W/log || { echo "HARNESS: fuzzer hit the RSS limit (inconclusive)" >&2; rm -rf $W; exit 2; } ;;
    esac
    R="$V/replays/new/fuzz-$TARGET-$(basename $A)"; cp "$A" "$R"
    grep -E "VIOLATION|panicked|ERROR: |SUMMARY" $W/log | head -5 >&2
    echo "VIOLATION property=$PROP replay=$R"
    rm -rf $W; exit 1
  fi
  echo "HARNESS: fuzzer exited $RC without an artifact" >&2; tail -5 $W/log >&2; rm -rf $W; exit 2
fi
rm -rf $W
exit 0
