#!/usr/bin/env python3
"""Generate /verif/MANIFEST.json from the table below (kept valid at all times)."""
import json, os, sys
HERE = os.path.dirname(os.path.dirname(os.path.abspath(__file__)))
props = [json.loads(l) for l in open(os.path.join(HERE, "properties.jsonl"))]

# id -> (technique, level text, level note, design ref)
CHECKS = {
 "C26": ("exhaustive small strings/lines + proptest Unicode strings through every Cell implementor, width oracle and watchdog-backed termination check",
         "Exploration: strings over an atom alphabet (ASCII, CJK, emoji/ZWJ, combining, zero-width, NBSP, U+2003, U+3000, tab, newline), widths and six delimiters through str/String/Paint/Label/Filled and Line::truncate; no panic, display width <= requested width, and every Line::truncate call returns (worker thread + 20 s watchdog, a progress model of the loop confirms a genuine cycle). Strings of <=3 (quick) / <=5 (thorough) atoms and lines of <=2 / <=3 labels are enumerated exhaustively.",
         "Display width is measured with the crate's own Cell::width on the plain content; a microsecond-scale call that does not return within 60 s is reported as a hang.",
         "DESIGN.md C26"),
 "C27": ("proptest raw and structure-mutated agent replies through a mock and a real UnixStream ClientStream + round-trip oracle",
         "Exploration: arbitrary, prefix-exhaustive and structure-mutated agent replies into every AgentClient operation (mock stream and real socketpair): value or error, never a panic; keys written into an identities answer and 64-byte signatures come back unchanged; read(write(x)) == x for public keys, signatures and secret keys.",
         "MockSigner/ed25519 keys from seeds; the agent side is simulated.",
         "DESIGN.md C27"),
 "C16": ("proptest stateful event sequences + exhaustive short sequences against the real Service with a token model of in-flight fetches",
         "Exploration: connect/disconnect/reconnect, fetch commands, refs announcements, ticks and (late) worker results drive the real Service; each Io::Fetch is a token in a harness model that applies the wire's forwarding rule. After every event: <=1 in-flight fetch per repository, per-peer limit, queue bound, no panic, and a delivered result may only complete its own fetch. All sequences of depth 3 (quick) / 5 (thorough) over a 10-event alphabet are enumerated; a directed late-result family is always run. One residual defect is a known finding, one was fixed.",
         "The wire layer is modelled from wire/protocol.rs (results forwarded iff the peer is connected; fetch requests for a peer that just went down are dropped), not executed; connection crossing is not generated.",
         "DESIGN.md C16"),
 "C17": ("proptest timelines + exhaustive delta patterns vs exact rational bound",
         "Exploration: request timelines with bursts, idle periods and backward clock steps over capacities, fractional rates and host kinds; for every contiguous window of a host's requests admitted <= floor(capacity + rate * whole seconds) in exact integer arithmetic; bypassed nodes and non-routable IPv4 are never limited. All delta patterns of length 6 (quick) / 9 (thorough) over 5 deltas x 4 capacities x 4 rates are enumerated.",
         "Window length of a non-monotonic timeline is max t - min t over the window; IPv6 local addresses being limited is counted, not failed (code documents IPv6 routability as unsupported).",
         "DESIGN.md C17"),
 "C22": ("exhaustive enumeration of all triples over small reachable-state domains + proptest larger values vs semilattice laws and an LWW write-set model",
         "Exploration: 16 CRDT instantiations; every state reachable by <=3 operations over small clock/value/key domains is enumerated and all triples (thorough) / all triples of the small types and all pairs + sampled triples of the map types (quick) are checked for idempotence, commutativity, associativity; LWW structures additionally against an independent write-set model (greatest clock wins, insert over remove, equal clocks join).",
         "Immutable is out of scope (documented panic). Exhaustive only over the enumerated sub-spaces.",
         "DESIGN.md C22"),
 "C10": ("proptest stateful event sequences against the real Service + history/store-delta oracle",
         "Exploration: generated delivery/redelivery/tick/connect/subscribe sequences drive the real radicle-node Service (sqlite database, mock storage); after every event the gossip-store delta and every outgoing write are judged against the statement (valid signature, <= 1h ahead, strictly newer, known announcer, never echoed to a deliverer or the announcer).",
         "Trusts the harness model of 'who delivered what' (a delivery counts once the node processed it as gossip), MockSigner keys, and the emulation of the runtime reacting to Io::Disconnect. Timestamp 0 is left to C13.",
         "DESIGN.md C10"),
 "C11": ("proptest stateful event sequences against the real Service + visibility invariant over every outgoing write",
         "Exploration: generated sequences of subscriptions, own and relayed refs announcements, fetch results, restarts (new Service on the same databases), visibility flips and connections; every Io::Write of a refs or own inventory announcement is judged against the storage document at send time with an independent visibility predicate. Two genuine residual windows are listed as known findings; three leaks were fixed.",
         "Trusts MockStorage (wrapped to report synced_at) as the source of truth for visibility; AddInventory is only issued for public repositories because every caller checks that first.",
         "DESIGN.md C11"),
 "C29": ("proptest stateful event sequences against the real Service + monotonicity invariant over first-visibility of signed announcements",
         "Exploration: clock ticks forward/equal/backward interleaved with every action that makes the node sign an announcement; announcements first observable after an event were signed in it and must carry timestamps greater than everything observed earlier (pairwise distinct within the event).",
         "Signing order is observed through first visibility in the outbox or the gossip store; restarts are excluded (new run).",
         "DESIGN.md C29"),
 "C23": ("proptest generated DAGs + exhaustive small-DAG enumeration vs adjacency-set reference model",
         "Exploration: every DAG with <=4 (quick) / <=5 (thorough) nodes under three relabellings x all break masks x all start sets is enumerated and compared with a bitmask reference model for sorted/sorted_by/fold/prune/prune_by/merge; random DAGs up to 14 nodes on top. Exhaustive only for those sub-spaces, no claim beyond them.",
         "Trusts the harness reference model (transitive closure on bitmasks) and proptest; graphs are well-formed, comparators total, predicates stateless.",
         "DESIGN.md C23"),
}
PENDING_REASON = "check not built yet (work in progress; see DESIGN.md section 2 for the planned harness)"
NOT_APPLICABLE = {}

checks = []
na = []
for p in props:
    pid = p["id"]
    if pid in CHECKS:
        tech, text, note, ref = CHECKS[pid]
        checks.append({
            "property_id": pid,
            "quick_cmd": f"./check {pid} quick",
            "thorough_cmd": f"./check {pid} thorough",
            "evidence_file": f"/verif/evidence/{pid}.json",
            "replay_cmd_template": f"./check {pid} --replay {{path}}",
            "engine": "vcheck",
            "level_claimed": {"category": "exploration", "text": text, "design_ref": ref},
            "level_note": note,
            "technique": tech,
        })
    else:
        na.append({"property_id": pid, "reason": NOT_APPLICABLE.get(pid, PENDING_REASON)})

hooks_commits = [l.strip() for l in open(os.path.join(HERE, "hooks_commits.txt"))] if os.path.exists(os.path.join(HERE, "hooks_commits.txt")) else []
manifest = {
 "version": 1,
 "setup_cmd": "cd /verif/harness && CARGO_NET_OFFLINE=true cargo build --bins",
 "hooks": {
   "guard": "cargo feature `verif-hooks` on crate radicle-node (off by default)",
   "enable": "the harness depends on radicle-node with features [\"test\", \"verif-hooks\"] (path dependency on /repo/crates/radicle-node), so every ./check build compiles /repo's working tree with the hooks on",
   "baseline_off_cmd": "cd /repo && cargo nextest run --workspace --no-fail-fast --offline || cargo test --workspace --no-fail-fast --offline",
   "source_commits": hooks_commits,
   "add_only": True,
 },
 "engines": [
   {"name": "vcheck", "path": "/verif/harness", "serves_properties": sorted(CHECKS.keys()),
    "kind_free_text": "Rust binary driving proptest 1.11 TestRunner (seeded from VERIF_SEED, no persistence) plus explicit enumeration of small finite sub-spaces; process-sharded over 16 cores; shrunk failures are written as JSON replay files and re-executed without the generator"},
 ],
 "checks": checks,
 "not_applicable": na,
 "notes": "All checks: exit 0 = held on everything explored, exit 1 + VIOLATION line, exit 2 = harness trouble/inconclusive. Known and fixed findings are listed in /verif/known_findings.json. Committed regression replays in /verif/replays/regress/<id>/ are re-executed at the start of every run.",
}
json.dump(manifest, open(os.path.join(HERE, "MANIFEST.json"), "w"), indent=1)
print("claimed:", len(checks), "not_applicable:", len(na))
