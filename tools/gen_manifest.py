#!/usr/bin/env python3
"""Generate /verif/MANIFEST.json from the table below (kept valid at all times)."""
import json, os, sys
HERE = os.path.dirname(os.path.dirname(os.path.abspath(__file__)))
props = [json.loads(l) for l in open(os.path.join(HERE, "properties.jsonl"))]

# id -> (technique, level text, level note, design ref)
CHECKS = {
 "C05": ("proptest change DAGs written as raw git change commits + metamorphic comparison across reference layouts and a second repository",
         "Exploration: the same generated commit set (issues and patches, ties in timestamps, concurrent conflicting actions, some rejected changes) is evaluated through cob::get under five layouts: one ref per tip, permuted namespaces, extra interior refs, a ref at every change, and a second repository that received the commits in another order; object, tips and entry set must be identical.",
         "Real git storage on tmpfs; commit timestamps via GIT_COMMITTER_DATE in single-threaded shard processes.",
         "DESIGN.md C05"),
 "C06": ("proptest change DAGs with injected rejected changes + metamorphic re-evaluation of the pruned history",
         "Exploration: issue and patch histories mixing valid changes with forged signatures, undecodable actions and multi-action changes whose later action is rejected, at every DAG position; the evaluated history must be ancestor-closed and free of surely-rejected changes, and re-pointing the refs at its tips must give the identical object, tips and entries. The non-atomic op defect it found is fixed.",
         "Raw change commits bypass cob::update's apply-before-store check exactly as fetched data does. At most one discussion-thread action and one identifier-producing action per change (debug-only assertions in the thread code, and the CLI's own transaction rule).",
         "DESIGN.md C06"),
 "C13": ("proptest boundary-valued message sequences into the real Service, mutated frame byte streams into the real Deserializer, exhaustive pkt-line length prefixes",
         "Exploration: (messages) well-formed gossip with boundary values from peers in every session state — no panic, only the sender may be disconnected, the service still accepts an honest announcement afterwards; (frames) mutated/boundary/random frame streams in random chunks, decoded gossip dispatched to the service, allocation guard at 1 GiB; (pktline) all 65536 four-hex length prefixes x 3 bodies plus generated headers through the real parser. Four remote-triggerable crashes found and fixed.",
         "Worker git streams after the request header are not executed; the frames sub-check shares one service per shard.",
         "DESIGN.md C13"),
 "C14": ("proptest + exhaustive grids of length prefixes, cut points and damaged inner messages against the real Deserializer<Frame> with a counting allocator",
         "Exploration: every varint width x boundary lengths x supplied bytes (largest single allocation <= 64 KiB + bytes buffered, measured by the harness's global allocator; 256 MiB trip wire), every single cut position and random multi-cuts of encoded frame sequences (frames out == frames in, in order, buffer empty), and complete frames around truncated/over-long/unknown/invalid inner messages (error, never 'incomplete'). Two defects found and fixed.",
         "Allocation is judged per decode call as the largest single request; the inbox's own growth is counted, not judged.",
         "DESIGN.md C14"),
 "C15": ("proptest constructor-built messages at the limits + structure-aware byte mutants vs round-trip / re-encode oracle",
         "Exploration: every message type built through the public constructors at and around the size limits encodes within 65535 bytes and decodes to an equal message; for mutated, hand-assembled and random bytes, a successful decode must re-encode to exactly the input (node announcement without trailing user agent excepted). All boundary messages with 1..12 tail bytes dropped are enumerated. Two defects found and fixed.",
         "MockSigner keys; signatures of really signed announcements must still verify after decoding.",
         "DESIGN.md C15"),
 "C18": ("proptest recursive JSON values + exhaustive code points and key triples vs a strict canonical-grammar scanner",
         "Exploration: values through cob::store::encoding::encode and Doc::encode; a strict scanner checks the output grammar (no insignificant whitespace, integers only, escapes, NFC, keys ascending), the scanned tree equals the NFC-normalised input, floats are rejected, and decode->encode reproduces the bytes. Every code point below U+3000 and 31^3 key triples are enumerated. Two formatter defects found and fixed.",
         "Objects whose keys collide after NFC are skipped for the value comparison; DEL/C1 controls are counted, not required to be escaped.",
         "DESIGN.md C18"),
 "C21": ("proptest values by construction + arbitrary/mutated text vs an independent base58btc reference and round-trip oracle",
         "Exploration: keys, DIDs, repository ids, aliases and user agents at their limits print in canonical form (checked against an independent base58btc encoder) and reparse equal through every parse route; arbitrary text (every multibase prefix, single-edit mutants, random Unicode) never panics and anything accepted round-trips.",
         "print(parse(s)) == s is not demanded (the statement does not).",
         "DESIGN.md C21"),
 "C24": ("proptest operation sequences per store vs in-memory reference models, compared after every step",
         "Exploration: routing, seed sync status, refs cache, policy and gossip stores on in-memory sqlite are driven with generated operation sequences over small node/repo/timestamp domains; return values and the full query surface are compared with a model implementing the statement after every operation. One defect found and fixed.",
         "Timestamp 0 is excluded from the gossip store domain (C13).",
         "DESIGN.md C24"),
 "C25": ("proptest call sequences + exhaustive 4-node configurations vs reference models of announcer and fetcher",
         "Exploration: configurations over an 8-node pool (local node anywhere) and arbitrary call sequences against models of the documented contracts; success exactly when the target is met, the local node never counted or handed out, no node with a result handed out again. Exhaustive over all 4-node configurations in three (quick) / all (thorough) result orders. One defect fixed, one listed as known (its repair changes CLI output recorded in example tests).",
         "Second results for one node are outside the domain (callers report once per hand-out).",
         "DESIGN.md C25"),
 "C28": ("proptest repositories in a real Storage + ref-snapshot oracle around Storage::clean",
         "Exploration: real repositories with generated delegate sets, identity revisions, remotes with/without sigrefs and odd refs; after clean every removed ref belongs to a namespace that is neither local nor a current delegate, and the repository disappears only when the local node has no signed refs.",
         "Only removals are judged (the statement forbids removals; a removable namespace that survives is counted).",
         "DESIGN.md C28"),
 "C30": ("proptest pairs of small trees in a real git repository + round-trip oracle through encode/parse (whole diff and per file)",
         "Exploration: git2 diffs (rename detection as the CLI does) between generated trees with awkward lines (trailing blanks, CR, Unicode whitespace, diff-syntax look-alikes) are encoded and parsed back; files, kinds, hunk headers, ranges and lines must be equal. One defect fixed; unchanged renames cannot be decoded (known finding, repair belongs in radicle-surf).",
         "Binary files, missing EOF newline and Copied deltas are excluded as the statement says; object ids and modes in headers are not compared.",
         "DESIGN.md C30"),
 "C26": ("exhaustive small strings/lines + proptest Unicode strings through every Cell implementor, width oracle and watchdog-backed termination check",
         "Exploration: strings over an atom alphabet (ASCII, CJK, emoji/ZWJ, combining, zero-width, NBSP, U+2003, U+3000, tab, newline), widths and six delimiters through str/String/Paint/Label/Filled and Line::truncate; no panic, display width <= requested width, and every Line::truncate call returns (worker thread + 20 s watchdog, a progress model of the loop confirms a genuine cycle). Strings of <=3 (quick) / <=5 (thorough) atoms and lines of <=2 / <=3 labels are enumerated exhaustively.",
         "Display width is measured with the crate's own Cell::width on the plain content; a microsecond-scale call that does not return within 60 s is reported as a hang.",
         "DESIGN.md C26"),
 "C27": ("proptest raw and structure-mutated agent replies through a mock and a real UnixStream ClientStream + round-trip oracle",
         "Exploration: arbitrary, prefix-exhaustive and structure-mutated agent replies into every AgentClient operation (mock stream and real socketpair): value or error, never a panic; keys written into an identities answer and 64-byte signatures come back unchanged; read(write(x)) == x for public keys, signatures and secret keys.",
         "MockSigner/ed25519 keys from seeds; the agent side is simulated.",
         "DESIGN.md C27"),
 "C16": ("proptest stateful event sequences + exhaustive short sequences against the real Service with a token model of in-flight fetches",
         "Exploration: connect/disconnect/reconnect, fetch commands, refs announcements, ticks and (late) worker results drive the real Service; each Io::Fetch is a token in a harness model that applies the wire's forwarding rule. After every event: <=1 in-flight fetch per repository, per-peer limit, queue bound, no panic, and a delivered result may only complete its own fetch. All sequences of depth 3 (quick) / 5 (thorough) over a 10-event alphabet are enumerated; a directed late-result family is always run. One residual defect is a known finding, one was fixed.",
         "The wire layer is modelled from wire/protocol.rs (results forwarded iff the peer is connected; fetch requests for a peer that just went down are dropped), not executed; connection crossing is not generated.",
         "DESIGN.md C16"),
 "C17": ("proptest timelines + exhaustive delta patterns vs exact rational bound",
         "Exploration: request timelines with bursts, idle periods and backward clock steps over capacities, fractional rates and host kinds; for every contiguous window of a host's requests admitted <= floor(capacity + rate * whole seconds) in exact integer arithmetic; bypassed nodes and non-routable IPv4 are never limited. All delta patterns of length 6 (quick) / 9 (thorough) over 5 deltas x 4 capacities x 4 rates are enumerated.",
         "Window length of a non-monotonic timeline is max t - min t over the window; IPv6 local addresses being limited is counted, not failed (code documents IPv6 routability as unsupported).",
         "DESIGN.md C17"),
 "C22": ("exhaustive enumeration of all triples over small reachable-state domains + proptest larger values vs semilattice laws and an LWW write-set model",
         "Exploration: 16 CRDT instantiations; every state reachable by <=3 operations over small clock/value/key domains is enumerated and all triples (thorough) / all triples of the small types and all pairs + sampled triples of the map types (quick) are checked for idempotence, commutativity, associativity; LWW structures additionally against an independent write-set model (greatest clock wins, insert over remove, equal clocks join).",
         "Immutable is out of scope (documented panic). Exhaustive only over the enumerated sub-spaces.",
         "DESIGN.md C22"),
 "C10": ("proptest stateful event sequences against the real Service + history/store-delta oracle",
         "Exploration: generated delivery/redelivery/tick/connect/subscribe sequences drive the real radicle-node Service (sqlite database, mock storage); after every event the gossip-store delta and every outgoing write are judged against the statement (valid signature, <= 1h ahead, strictly newer, known announcer, never echoed to a deliverer or the announcer).",
         "Trusts the harness model of 'who delivered what' (a delivery counts once the node processed it as gossip), MockSigner keys, and the emulation of the runtime reacting to Io::Disconnect. Timestamp 0 is left to C13.",
         "DESIGN.md C10"),
 "C11": ("proptest stateful event sequences against the real Service + visibility invariant over every outgoing write",
         "Exploration: generated sequences of subscriptions, own and relayed refs announcements, fetch results, restarts (new Service on the same databases), visibility flips and connections; every Io::Write of a refs or own inventory announcement is judged against the storage document at send time with an independent visibility predicate. Two genuine residual windows are listed as known findings; three leaks were fixed.",
         "Trusts MockStorage (wrapped to report synced_at) as the source of truth for visibility; AddInventory is only issued for public repositories because every caller checks that first.",
         "DESIGN.md C11"),
 "C29": ("proptest stateful event sequences against the real Service + monotonicity invariant over first-visibility of signed announcements",
         "Exploration: clock ticks forward/equal/backward interleaved with every action that makes the node sign an announcement; announcements first observable after an event were signed in it and must carry timestamps greater than everything observed earlier (pairwise distinct within the event).",
         "Signing order is observed through first visibility in the outbox or the gossip store; restarts are excluded (new run).",
         "DESIGN.md C29"),
 "C23": ("proptest generated DAGs + exhaustive small-DAG enumeration vs adjacency-set reference model",
         "Exploration: every DAG with <=4 (quick) / <=5 (thorough) nodes under three relabellings x all break masks x all start sets is enumerated and compared with a bitmask reference model for sorted/sorted_by/fold/prune/prune_by/merge; random DAGs up to 14 nodes on top. Exhaustive only for those sub-spaces, no claim beyond them.",
         "Trusts the harness reference model (transitive closure on bitmasks) and proptest; graphs are well-formed, comparators total, predicates stateless.",
         "DESIGN.md C23"),
}
PENDING_REASON = "check not built yet (work in progress; see DESIGN.md section 2 for the planned harness)"
NOT_APPLICABLE = {}

checks = []
na = []
for p in props:
    pid = p["id"]
    if pid in CHECKS:
        tech, text, note, ref = CHECKS[pid]
        checks.append({
            "property_id": pid,
            "quick_cmd": f"./check {pid} quick",
            "thorough_cmd": f"./check {pid} thorough",
            "evidence_file": f"/verif/evidence/{pid}.json",
            "replay_cmd_template": f"./check {pid} --replay {{path}}",
            "engine": "vcheck-cli" if pid == "C30" else "vcheck",
            "level_claimed": {"category": "exploration", "text": text, "design_ref": ref},
            "level_note": note,
            "technique": tech,
        })
    else:
        na.append({"property_id": pid, "reason": NOT_APPLICABLE.get(pid, PENDING_REASON)})

hooks_commits = [l.strip() for l in open(os.path.join(HERE, "hooks_commits.txt"))] if os.path.exists(os.path.join(HERE, "hooks_commits.txt")) else []
manifest = {
 "version": 1,
 "setup_cmd": "cd /verif/harness && CARGO_NET_OFFLINE=true cargo build --bin vcheck && CARGO_NET_OFFLINE=true cargo build --bin vcheck-cli --features cli",
 "hooks": {
   "guard": "cargo feature `verif-hooks` on crate radicle-node (off by default)",
   "enable": "the harness depends on radicle-node with features [\"test\", \"verif-hooks\"] (path dependency on /repo/crates/radicle-node), so every ./check build compiles /repo's working tree with the hooks on",
   "baseline_off_cmd": "cd /repo && cargo nextest run --workspace --no-fail-fast --offline || cargo test --workspace --no-fail-fast --offline",
   "source_commits": hooks_commits,
   "add_only": True,
 },
 "engines": [
   {"name": "vcheck-cli", "path": "/verif/harness", "serves_properties": ["C30"], "kind_free_text": "same harness crate built with --features cli (links radicle-cli); separate binary so that other checks do not rebuild radicle-cli"},
   {"name": "vcheck", "path": "/verif/harness", "serves_properties": sorted(k for k in CHECKS.keys() if k != "C30"),
    "kind_free_text": "Rust binary driving proptest 1.11 TestRunner (seeded from VERIF_SEED, no persistence) plus explicit enumeration of small finite sub-spaces; process-sharded over 16 cores; shrunk failures are written as JSON replay files and re-executed without the generator"},
 ],
 "checks": checks,
 "not_applicable": na,
 "notes": "All checks: exit 0 = held on everything explored, exit 1 + VIOLATION line, exit 2 = harness trouble/inconclusive. Known and fixed findings are listed in /verif/known_findings.json. Committed regression replays in /verif/replays/regress/<id>/ are re-executed at the start of every run.",
}
json.dump(manifest, open(os.path.join(HERE, "MANIFEST.json"), "w"), indent=1)
print("claimed:", len(checks), "not_applicable:", len(na))
