#!/bin/bash
# usage: tools/sweep_seeds.sh [<id>/<mN> ...]     (default: every staged change under /verif/seeded)
# For each staged change: apply to /repo, run the quick check of its property with VERIF_SEED=1, record
# exit status and violation signatures in seeded/<id>/<mN>/caught.json, undo the change.
# /repo must be clean and nothing else may build from it meanwhile.
cd /verif
[ -z "$(git -C /repo status --porcelain)" ] || { echo "/repo not clean"; exit 2; }
list="$@"; [ -n "$list" ] || list=$(cd seeded && ls -d */m* | sort)
for s in $list; do
  id=${s%%/*}; d=/verif/seeded/$s
  extra=""; [ -f $d/also_check ] && extra=$(cat $d/also_check)
  git -C /repo apply $d/patch.diff || { echo "$s: patch does not apply"; continue; }
  res="["
  for c in $id $extra; do
    out=$(VERIF_SEED=1 VERIF_DIR=/tmp/sweep-verif ./check $c quick 2>&1); rc=$?
    sigs=$(echo "$out" | grep -E "^\s+\[" | sed -E 's/^\s+\[[^]]*\] ([^ ]*): .*/\1/' | sort -u | head -5 | python3 -c "import sys,json; print(json.dumps([l.strip() for l in sys.stdin if l.strip()]))")
    res="$res{\"check\": \"$c\", \"tier\": \"quick\", \"seed\": 1, \"exit\": $rc, \"signatures\": $sigs},"
  done
  res="${res%,}]"
  git -C /repo checkout -- .
  echo "{\"change\": \"$s\", \"base_commit\": \"$(git -C /repo rev-parse --short HEAD)\", \"results\": $res}" | python3 -m json.tool > $d/caught.json
  echo "$s: $(python3 -c "import json;print([(r['check'],r['exit'],r['signatures'][:2]) for r in json.load(open('$d/caught.json'))['results']])")"
done
# leave the harness built from the clean tree
./check C22 quick >/dev/null 2>&1
