#!/bin/bash
# usage: tools/quiet_sweep.sh <seed> [ids...]   — every quick check on the unchanged tree with the given VERIF_SEED.
# Evidence/replays of seeds other than 1 go to a scratch VERIF_DIR so that the committed evidence stays that of seed 1.
SEED=$1; shift
IDS="$@"; [ -n "$IDS" ] || IDS=$(python3 -c "import json; print(' '.join(c['property_id'] for c in json.load(open('/verif/MANIFEST.json'))['checks']))")
cd /verif
[ -z "$(git -C /repo status --porcelain)" ] || { echo "/repo not clean"; exit 2; }
if [ "$SEED" != 1 ]; then
  export VERIF_DIR=/tmp/quiet-verif-$SEED
  mkdir -p $VERIF_DIR/replays/new $VERIF_DIR/evidence $VERIF_DIR/target/shards
  ln -sfn /verif/known_findings.json $VERIF_DIR/known_findings.json; ln -sfn /verif/replays/regress $VERIF_DIR/replays/regress
fi
for id in $IDS; do
  s=$(date +%s)
  out=$(VERIF_SEED=$SEED ./check $id quick 2>&1); rc=$?
  echo "seed=$SEED $id exit=$rc wall=$(( $(date +%s) - s ))s $(echo "$out" | grep -E "quick:" | tail -1 | cut -c1-100)"
  [ $rc -eq 0 ] || echo "$out" | grep -E "VIOLATION|^\s+\[|HARNESS" | cut -c1-300 | head -5
done
