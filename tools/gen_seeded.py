#!/usr/bin/env python3
"""Write seeded/<id>/<mN>/meta.json from agent_meta.json + confirm.json + caught.json and refresh the
catch table in DESIGN.md (between the SEEDED-TABLE markers)."""
import json, os, glob, re
ROOT = "/verif/seeded"
rows = []
for d in sorted(glob.glob(ROOT + "/*/m*")):
    pid, m = d.split("/")[-2:]
    ld = lambda f: json.load(open(os.path.join(d, f))) if os.path.exists(os.path.join(d, f)) else None
    agent, confirm, caught = ld("agent_meta.json"), ld("confirm.json"), ld("caught.json")
    if agent is None:
        continue
    notes = open(os.path.join(d, "NOTES.md")).read().strip() if os.path.exists(os.path.join(d, "NOTES.md")) else ""
    suite_ok = bool(confirm) and (confirm.get("existing_suite_with_change_exit") == 0 or (confirm.get("rerun_of_failed_tests") or {}).get("exit") == 0)
    kept = bool(confirm) and confirm.get("demo_on_unchanged_tree_exit") == 0 and confirm.get("demo_with_change_exit") not in (0, None) and suite_ok
    meta = {
        "property": pid,
        "change": m,
        "breaks": agent.get("summary"),
        "needs_to_manifest": agent.get("needs"),
        "files_touched": agent.get("files_touched"),
        "demonstration": "demo/run.sh <worktree>  (exit 0 = passes); passes on the unchanged tree, fails with patch.diff applied",
        "confirmed_by_me": confirm,
        "confirmation_procedure": "tools/confirm_seed2.sh: scratch worktree of /repo at base_commit; demo on the unchanged tree; demo with patch.diff; complete baseline suite (cargo nextest, profile pb, --retries 2) with patch.diff; tests that failed in that run (machine under load) were re-run on their own with the change applied (tools/confirm_fixup.sh)",
        "kept": kept,
        "checks_run_against_it": caught,
        "notes": notes,
        "sub_agent_report": {"tests_run": agent.get("tests_run"), "demo_cmd": agent.get("demo_cmd")},
    }
    json.dump(meta, open(os.path.join(d, "meta.json"), "w"), indent=1)
    res = (caught or {}).get("results", [])
    def outcome(r):
        if r["exit"] == 1:
            return "**caught** (" + ", ".join(f"`{s}`" for s in r["signatures"][:2]) + ")"
        if r["exit"] == 2:
            return "inconclusive (exit 2)"
        return "missed" if r["check"] == pid else "silent (check of another property)"
    cell = "; ".join(f"{r['check']} quick: " + outcome(r) for r in res) or "not run yet"
    site = ", ".join(os.path.basename(f) for f in (agent.get("files_touched") or []))
    summ = (agent.get("summary") or "").split(". ")[0][:230].replace("|", "/")
    conf = "yes" if kept else ("pending" if not confirm else "NO: " + json.dumps({k: v for k, v in confirm.items() if k.endswith("exit")}))
    rows.append(f"| {pid}/{m} | {site} | {summ} | {conf} | {cell}{' — ' + notes if notes else ''} |")
table = "| change | site | what it does | confirmed (demo passes clean / fails changed / full suite passes) | result of the checks (VERIF_SEED=1) |\n|---|---|---|---|---|\n" + "\n".join(rows)
p = "/verif/DESIGN.md"
s = open(p).read()
b, e = "<!-- SEEDED-TABLE-BEGIN -->", "<!-- SEEDED-TABLE-END -->"
if b in s:
    s = s[: s.index(b) + len(b)] + "\n" + table + "\n" + s[s.index(e):]
    open(p, "w").write(s)
print(table)
