#!/bin/bash
# usage: tools/confirm_fixup.sh <id> <mN>
# For a change whose complete-suite run had failures: re-run exactly the failed tests (3 tries, 2 at a time) with the
# change applied in the scratch worktree, and record the outcome in confirm.json (rerun_of_failed_tests).
set -u
ID="$1"; M="$2"; D=/tmp/seed-$ID; R=$D/repo; S=/verif/seeded/$ID/$M
export CARGO_TARGET_DIR=$D/target CARGO_NET_OFFLINE=true
[ -f $S/confirm.json ] || { echo "$ID/$M: no confirm.json"; exit 2; }
failed=$(grep -E "^\s+(TRY 3 )?(FAIL|TIMEOUT|SIGABRT|SIGSEGV)" $D/$M-confirm-suite.log | sed -E 's/.*\) +//; s/^ +//' | awk '{print $NF}' | sort -u)
[ -n "$failed" ] || { echo "$ID/$M: nothing failed"; exit 0; }
mkdir $D/confirm.lock 2>/dev/null || { echo "busy"; exit 2; }
trap 'rmdir $D/confirm.lock 2>/dev/null' EXIT
git -C $R checkout -q -- . ; git -C $R clean -fdq crates >/dev/null 2>&1
git -C $R apply $S/patch.diff || exit 2
expr=""
for t in $failed; do expr="${expr:+$expr | }test(=$t)"; done
(cd $R && cargo nextest run --workspace --no-fail-fast --offline --test-threads 2 --retries 2 -E "$expr") > $D/$M-confirm-rerun.log 2>&1
rc=$?
summary=$(grep -E "^\s+Summary" $D/$M-confirm-rerun.log | tail -1 | sed 's/^ *//')
git -C $R checkout -q -- . ; git -C $R clean -fdq crates >/dev/null 2>&1
python3 - "$S/confirm.json" "$rc" "$summary" $failed <<'PY'
import json, sys
p, rc, summary, failed = sys.argv[1], int(sys.argv[2]), sys.argv[3], sys.argv[4:]
c = json.load(open(p))
c["rerun_of_failed_tests"] = {"tests": failed, "exit": rc, "summary": summary, "how": "only these tests, with the change applied, --test-threads 2 --retries 2"}
json.dump(c, open(p, "w"), indent=1)
print(c)
PY
