#!/bin/bash
# usage: tools/confirm_seed.sh <id> <mN>
# Confirms a seeded change in its scratch worktree /tmp/seed-<id>/repo:
#  1. demo passes on the clean tree, 2. demo fails with the patch, 3. the touched crates' own
#  (non-e2e) tests pass with the patch. Writes /tmp/seed-<id>/<mN>/confirm.json.
set -u
ID="$1"; M="$2"; D=/tmp/seed-$ID; R=$D/repo; S=$D/$M
export CARGO_TARGET_DIR=$D/target CARGO_NET_OFFLINE=true
cat > $D/nextest-confirm.toml <<'EOT'
[profile.default]
slow-timeout = { period = "120s", terminate-after = 5 }
EOT
cd $R && git checkout -q -- . && git clean -fdq crates >/dev/null 2>&1
run_demo() { sh $S/demo/run.sh $R > "$1" 2>&1; echo $?; }
clean_rc=$(run_demo $S/confirm-clean.log)
git -C $R checkout -q -- .; git -C $R clean -fdq crates >/dev/null 2>&1
git -C $R apply $S/patch.diff || { echo "{\"applies\": false}" > $S/confirm.json; exit 1; }
mut_rc=$(run_demo $S/confirm-mutated.log)
# restore only files the demo added, keep the patch: re-apply from scratch
git -C $R checkout -q -- .; git -C $R clean -fdq crates >/dev/null 2>&1; git -C $R apply $S/patch.diff
pkgs=$(git -C $R diff --name-only | sed -n 's|^crates/\([^/]*\)/.*|\1|p' | sort -u)
expr=""
for p in $pkgs; do expr="${expr:+$expr | }package($p)"; done
cd $R && cargo nextest run --workspace --offline --no-fail-fast --config-file $D/nextest-confirm.toml -E "($expr) & not test(e2e) & not test(/^commands::/)" > $S/confirm-tests.log 2>&1
tests_rc=$?
summary=$(grep -E "^\s+Summary" $S/confirm-tests.log | tail -1 | sed 's/"/\\"/g')
git -C $R checkout -q -- .; git -C $R clean -fdq crates >/dev/null 2>&1
echo "{\"id\": \"$ID\", \"change\": \"$M\", \"demo_clean_exit\": $clean_rc, \"demo_mutated_exit\": $mut_rc, \"existing_tests_exit\": $tests_rc, \"existing_tests\": \"$summary\", \"packages\": \"$pkgs\"}" > $S/confirm.json
cat $S/confirm.json
