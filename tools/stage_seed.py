#!/usr/bin/env python3
"""Stage a seeded change from its sub-agent sandbox /tmp/seed-<id>/<mN> into /verif/seeded/<id>/<mN>/
with a uniform demo/run.sh (<worktree> as argument; exit status = the demonstration's result)."""
import json, os, shutil, sys, stat
TABLE = {
 # id: (install snippet using $R (worktree) and $HERE (demo dir), test command run inside $R)
 "C03": ('git -C "$R" apply "$HERE/demo.diff"', "nextest:package(radicle) & test(demo_c03_{m})"),
 "C05": ('cat "$HERE/c05_{m}_test.rs" >> "$R/crates/radicle-cob/src/tests.rs"', "nextest:package(radicle-cob) & test(c05_{m})"),
 "C06": ('sh "$HERE/install.sh" "$R" >/dev/null', {"m1": "nextest:package(radicle) & test(test_identity_rejected_accept_leaves_no_trace)", "m2": "nextest:package(radicle-cob) & test(forged_change_leaves_no_trace)"}),
 "C09": ('sh "$HERE/apply_demo.sh" "$R" >/dev/null', {"m1": "nextest:package(radicle-node) & test(seed_c09_m1)", "m2": "nextest:package(radicle) & test(seed_c09_m2)"}),
 "C10": ('cat "$HERE/test.rs" >> "$R/crates/radicle-node/src/tests.rs"', "nextest:package(radicle-node) & test(c10_{m}_)"),
 "C11": ('sh "$HERE/apply.sh" "$R"', "nextest:package(radicle-node) & test(c11_{m})"),
 "C14": ('mkdir -p "$R/crates/radicle-node/tests" && cp "$HERE"/c14_{m}_*.rs "$R/crates/radicle-node/tests/"', {"m1": "cargo test --workspace --offline --features radicle-node/verif-hooks --test c14_m1_payload_alloc", "m2": "cargo test --workspace --offline --features radicle-node/verif-hooks --test c14_m2_chunking"}),
 "C16": ('cat "$HERE/c16_{m}_demo.rs" >> "$R/crates/radicle-node/src/tests.rs"', "nextest:package(radicle-node) & test(test_c16_{m}_)"),
 "C24": ('git -C "$R" apply "$HERE/demo.diff"', None),
 "C29": ('cat "$HERE/c29_{m}_demo.rs" >> "$R/crates/radicle-node/src/tests.rs"', "nextest:package(radicle-node) & test(c29_{m}_)"),
}
def main(pid, m):
    src = f"/tmp/seed-{pid}/{m}"
    dst = f"/verif/seeded/{pid}/{m}"
    os.makedirs(dst + "/demo", exist_ok=True)
    shutil.copy(src + "/patch.diff", dst + "/patch.diff")
    own_run = pid not in TABLE  # later batches: the sub-agent was asked for run.sh <worktree> itself
    for f in os.listdir(src + "/demo"):
        if f == "run.sh" and not own_run:
            continue
        shutil.copy(os.path.join(src, "demo", f), os.path.join(dst, "demo", f))
    meta = json.load(open(src + "/meta.json"))
    json.dump(meta, open(dst + "/agent_meta.json", "w"), indent=1)
    if own_run:
        os.chmod(dst + "/demo/run.sh", 0o755)
        print("staged", dst, "(agent's run.sh)")
        return
    install, test = TABLE[pid]
    install = install.replace("{m}", m)
    if isinstance(test, dict):
        test = test[m]
    if test is None:  # take the nextest filter from the agent's demo_cmd
        cmd = meta["demo_cmd"]
        test = "nextest:" + cmd.split("-E '")[1].split("'")[0]
    test = test.replace("{m}", m)
    if test.startswith("nextest:"):
        test = "cargo nextest run --workspace --offline --no-fail-fast -E '" + test[len("nextest:"):] + "'"
    run = f"""#!/bin/sh
# usage: run.sh <heartwood-worktree>
# Installs the demonstration into the worktree (as it is: with or without ../patch.diff applied) and runs it.
# Exit status 0 = demonstration passes. The caller restores the worktree (git checkout -- . && git clean -fd crates).
set -u
R="$1"
HERE="$(cd "$(dirname "$0")" && pwd)"
{install} || exit 3
cd "$R" && {test}
"""
    p = dst + "/demo/run.sh"
    open(p, "w").write(run)
    os.chmod(p, 0o755)
    json.dump(meta, open(dst + "/agent_meta.json", "w"), indent=1)
    print("staged", dst)
if __name__ == "__main__":
    main(sys.argv[1], sys.argv[2])
