#!/bin/bash
# usage: tools/confirm_seed2.sh <id> <mN> [threads]
# Confirms the staged change /verif/seeded/<id>/<mN> in the scratch worktree /tmp/seed-<id>/repo:
#  1. the demonstration passes on the unchanged tree, 2. fails with patch.diff, 3. the complete existing
#  test suite (baseline command) passes with patch.diff. Writes <dir>/confirm.json.
set -u
ID="$1"; M="$2"; TH="${3:-8}"; D=/tmp/seed-$ID; R=$D/repo; S=/verif/seeded/$ID/$M
export CARGO_TARGET_DIR=$D/target CARGO_NET_OFFLINE=true
HEAD=$(git -C /repo rev-parse HEAD)
# already confirmed, or being confirmed by another stream
[ -f $S/confirm.json ] && { echo "$ID/$M: already confirmed"; exit 0; }
mkdir $D/confirm.lock 2>/dev/null || { echo "$ID/$M: worktree busy (another stream)"; exit 0; }
trap 'rmdir $D/confirm.lock 2>/dev/null' EXIT
restore() { git -C $R checkout -q -- . ; git -C $R clean -fdq crates >/dev/null 2>&1; }
restore; git -C $R checkout -q --detach $HEAD || exit 2
bash $S/demo/run.sh $R > $D/$M-confirm-clean.log 2>&1; clean_rc=$?
restore
git -C $R apply $S/patch.diff || { echo "{\"applies\": false}" > $S/confirm.json; exit 1; }
bash $S/demo/run.sh $R > $D/$M-confirm-mutated.log 2>&1; mut_rc=$?
restore; git -C $R apply $S/patch.diff
(cd $R && cargo nextest run --workspace --no-fail-fast --tool-config-file pb:/w/lib/nextest.toml --profile pb --test-threads $TH --retries 2 --offline) > $D/$M-confirm-suite.log 2>&1
suite_rc=$?
summary=$(grep -E "^\s+Summary" $D/$M-confirm-suite.log | tail -1 | sed 's/^ *//; s/"/\\"/g')
restore
cat > $S/confirm.json <<EOT
{"property": "$ID", "change": "$M", "base_commit": "$HEAD", "demo_on_unchanged_tree_exit": $clean_rc, "demo_with_change_exit": $mut_rc, "existing_suite_with_change_exit": $suite_rc, "existing_suite_with_change": "$summary"}
EOT
cat $S/confirm.json
