#!/bin/bash
# Create a private builder sandbox: a git worktree of /repo and a copy of the
# harness whose path dependencies point at that worktree.
# usage: mk_builder.sh <tag>   → /tmp/vb-<tag>/{repo,harness,target,out}
set -e
TAG="$1"; D=/tmp/vb-$TAG
rm -rf "$D"; mkdir -p "$D/out"
git -C /repo worktree add --detach "$D/repo" HEAD >/dev/null 2>&1
cp -r /verif/harness "$D/harness"
rm -rf "$D/harness/target"
sed -i "s|/repo/crates|$D/repo/crates|g" "$D/harness/Cargo.toml"
sed -i "s|/verif/target|$D/target|g" "$D/harness/.cargo/config.toml"
cp /verif/known_findings.json "$D/out/known_findings.json"
cat > "$D/run" <<EOS
#!/bin/bash
# usage: ./run CNN quick|thorough|--replay file
export VERIF_DIR=$D/out CARGO_NET_OFFLINE=true
cd $D/harness && cargo build --bin vcheck 2>&1 | grep -E "^(error|warning: unused)" -A 12 | head -80
cd $D/out && exec $D/target/debug/vcheck "\$@"
EOS
chmod +x "$D/run"
echo "$D"
