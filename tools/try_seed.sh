#!/bin/bash
# usage: tools/try_seed.sh <patch.diff> <id> [<id>...]
# Applies a seeded change to /repo, runs the quick tier of the given checks, and reverts.
set -u
PATCH="$1"; shift
cd /repo || exit 2
if [ -n "$(git status --porcelain)" ]; then echo "repo not clean"; exit 2; fi
git apply "$PATCH" || { echo "patch does not apply"; exit 2; }
for id in "$@"; do
  cd /verif
  out=$(VERIF_SEED=${VERIF_SEED:-1} ./check "$id" quick 2>&1); code=$?
  echo "== $id exit=$code"
  echo "$out" | grep -v "^proptest" | grep -E "VIOLATION|^\s+\[|HARNESS|quick:" | cut -c1-400 | head -8
done
git -C /repo checkout -- .
git -C /repo status --porcelain | head -3
