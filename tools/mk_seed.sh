#!/bin/bash
# Scratch worktree of /repo for a mutation-seeding sub-agent: /tmp/seed-<tag>/repo (+ property text).
set -e
TAG="$1"; PID="$2"; D=/tmp/seed-$TAG
rm -rf "$D"; mkdir -p "$D"
git -C /repo worktree add --detach "$D/repo" HEAD >/dev/null 2>&1
python3 - "$PID" > "$D/property.json" <<'PY'
import json,sys
for l in open('/verif/properties.jsonl'):
    p=json.loads(l)
    if p['id']==sys.argv[1]:
        print(json.dumps(p,indent=1))
PY
echo "$D"
